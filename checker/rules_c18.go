package main

import (
	"go/ast"
	"go/token"
	"go/types"
	"strings"
)

func init() {
	regProp(&PropInfo{
		ID:    "C18",
		Title: "Modules behave as textual inclusion with namespacing",
		Decided: "narrowly, the structural skeleton of module compilation: compileModule brackets the module with scope.depth++ / a deferred depth-- that also truncates the variables the module declared, and for an aliased import a deferred pass prefixes `alias::` onto exactly the functions appended since entry — both deferred closures capture their lengths at registration, before the module's imports and definitions are compiled (R-C18-modscope); a module's own imports are compiled before its definitions (R-C18-order); " +
			"an aliased import must compile the module's bodies with the importer's own names out of sight — today nothing restricts the lookup, which is a genuine defect recorded as a known finding (R-C18-isolation); a data import binds both `$d` and `$d::d` to the loaded value (R-C18-dataimport); modulemeta's `defs` are sorted by a total (name, arity) comparator and `deps` keep import order (R-C18-meta); ~/.jq auto-inclusion loads only regular files named .jq from the search list (R-C18-initmodules); no loader ⇒ an error, partial loaders ⇒ errors (R-C19-nilguard, R-C08-dispatch).",
		NotCovered: "name visibility in general (run-time contents of the compiler's symbol tables per module tree); search order of lookupModule beyond the shape of its two candidates (R-C18-candidates checks that the second is Join(dir, name, Base(name)+ext) after the first, which the property states; the os.Stat probes themselves are not examined); resolution of relative `search` metadata; equality of include with textual insertion.",
	})
	reg(&Rule{ID: "R-C18-modscope", Props: []string{"C18"}, Floor: 3,
		Doc: "compileModule: depth++ paired with a deferred depth-- and variable truncation; alias prefixing deferred over funcs[l:]; both lengths captured at defer registration, before the compile loops",
		Run: ruleC18ModScope})
	reg(&Rule{ID: "R-C18-order", Props: []string{"C18"}, Floor: 1,
		Doc: "compileModule and compile both compile a module's imports before its definitions/body",
		Run: ruleC18Order})
	reg(&Rule{ID: "R-C18-isolation", Props: []string{"C18"}, Floor: 1,
		Doc: "while an aliased import is compiled, the importer's own functions are hidden from the lookup functions (a saved-and-restricted scope chain or a lower bound consulted by every lookup)",
		Run: ruleC18Isolation})
	reg(&Rule{ID: "R-C18-dataimport", Props: []string{"C18"}, Floor: 2,
		Doc: "a data import stores the loaded value under both `$name` and `$name::name`",
		Run: ruleC18DataImport})
	reg(&Rule{ID: "R-C18-meta", Props: []string{"C18"}, Floor: 2,
		Doc: "listModuleDefs sorts by a comparator reading name and arity; listModuleDeps fills deps by import index",
		Run: ruleC18Meta})
	reg(&Rule{ID: "R-C18-initmodules", Props: []string{"C18"}, Floor: 2,
		Doc: "LoadInitModules skips search entries whose base name is not .jq and entries that are directories",
		Run: ruleC18InitModules})
}

func ruleC18ModScope(c *Ctx, r *Rep) {
	info := c.Gojq.TypesInfo
	fd := c.Decl(c.Gojq, "compiler.compileModule")
	if fd == nil {
		r.Undecided("compileModule", token.NoPos, "not found")
		return
	}
	var firstLoop token.Pos
	ast.Inspect(fd.Body, func(m ast.Node) bool {
		if rs, ok := m.(*ast.RangeStmt); ok && !firstLoop.IsValid() {
			firstLoop = rs.Pos()
		}
		return true
	})
	var incPos token.Pos
	ast.Inspect(fd.Body, func(m ast.Node) bool {
		if id, ok := m.(*ast.IncDecStmt); ok && id.Tok == token.INC && strings.HasSuffix(c.Src(id.X), ".depth") {
			incPos = id.Pos()
		}
		return true
	})
	r.Check(incPos.IsValid() && incPos < firstLoop, "depth++", fd.Pos(), "compileModule raises the scope depth before compiling anything of the module: %v", incPos.IsValid() && incPos < firstLoop)
	var defers []*ast.DeferStmt
	ast.Inspect(fd.Body, func(m ast.Node) bool {
		if d, ok := m.(*ast.DeferStmt); ok {
			defers = append(defers, d)
		}
		return true
	})
	restore, prefix := false, false
	for _, d := range defers {
		fl, ok := d.Call.Fun.(*ast.FuncLit)
		if !ok {
			continue
		}
		body := c.Src(fl.Body)
		// the captured length is a parameter of the literal whose argument is len(scope.X), evaluated when the defer is registered
		capArg := ""
		if len(d.Call.Args) == 1 {
			capArg = c.Src(d.Call.Args[0])
		}
		early := d.Pos() < firstLoop
		switch {
		case strings.Contains(body, ".depth--") && strings.Contains(body, ".variables = ") && strings.Contains(body, ".variables[:"):
			ok := early && capArg == "len(scope.variables)"
			restore = restore || ok
			r.Check(ok, "defer:restore", d.Pos(), "deferred closure lowers the depth again and truncates scope.variables to the length captured at registration (%q), registered before the compile loops: %v — variables a module declares must not outlive it", capArg, ok)
		case strings.Contains(body, `+ "::" +`) && strings.Contains(body, ".funcs["):
			// inside `if alias != ""`
			guarded := false
			walkStack(fd.Body, func(n ast.Node, stack []ast.Node) bool {
				if n == ast.Node(d) {
					for _, a := range stack {
						if ifs, ok := a.(*ast.IfStmt); ok && strings.Contains(c.Src(ifs.Cond), `alias != ""`) {
							guarded = true
						}
					}
				}
				return true
			})
			ok := early && capArg == "len(scope.funcs)" && guarded && strings.Contains(body, ".funcs[l:]")
			// every function the module added is renamed: the loop body is the assignment alone (a skip for names that
			// already carry a prefix lets a module's own imports show through its alias)
			uncond := false
			ast.Inspect(fl.Body, func(q ast.Node) bool {
				if rs, ok := q.(*ast.RangeStmt); ok {
					uncond = len(rs.Body.List) > 0
					for _, st := range rs.Body.List {
						if _, ok := st.(*ast.AssignStmt); !ok {
							uncond = false
						}
					}
				}
				return true
			})
			r.Check(uncond, "defer:prefix:unconditional", d.Pos(), "the prefixing loop renames every function the module added, without a condition or a skip: %v (double prefixing is what hides the imports of an imported module: a::b::f cannot be written)", uncond)
			prefix = prefix || ok
			r.Check(ok, "defer:prefix", d.Pos(), "for an aliased import a deferred closure prefixes `alias::` onto scope.funcs[l:] with l = %q captured at registration, before the module is compiled: %v — capturing the length late would leave the module's functions unprefixed; a lower index would rename the importer's own functions", capArg, ok)
		}
	}
	if !restore {
		r.Bad("defer:restore:missing", fd.Pos(), "compileModule has no deferred depth-- with variable truncation")
	}
	if !prefix {
		r.Bad("defer:prefix:missing", fd.Pos(), "compileModule has no deferred alias prefixing over the functions added by the module")
	}
	_ = info
}

func ruleC18Order(c *Ctx, r *Rep) {
	for _, fn := range []string{"compiler.compileModule", "compiler.compile"} {
		fd := c.Decl(c.Gojq, fn)
		if fd == nil {
			r.Undecided(fn, token.NoPos, "not found")
			continue
		}
		var imp, body token.Pos
		ast.Inspect(fd.Body, func(m ast.Node) bool {
			if call, ok := m.(*ast.CallExpr); ok {
				switch calleeName(c.Gojq.TypesInfo, call) {
				case "gojq.compiler.compileImport":
					if !imp.IsValid() {
						imp = call.Pos()
					}
				case "gojq.compiler.compileFuncDef", "gojq.compiler.compileQuery":
					if !body.IsValid() {
						body = call.Pos()
					}
				}
			}
			return true
		})
		r.Check(imp.IsValid() && body.IsValid() && imp < body, fn, fd.Pos(), "%s compiles the imports (%s) before the definitions/body (%s): a module's own imports are visible to its definitions", fn, c.Pos(imp), c.Pos(body))
	}
}

func ruleC18Isolation(c *Ctx, r *Rep) {
	info := c.Gojq.TypesInfo
	fd := c.Decl(c.Gojq, "compiler.compileModule")
	if fd == nil {
		r.Undecided("compileModule", token.NoPos, "not found")
		return
	}
	// accepted idiom 1: compileModule assigns c.scopes (restricting the chain) before compiling the definitions
	assignsScopes := false
	var fields []string
	ast.Inspect(fd.Body, func(m ast.Node) bool {
		as, ok := m.(*ast.AssignStmt)
		if !ok {
			return true
		}
		for _, l := range as.Lhs {
			if f, ok := selectorOn(info, l, "compiler"); ok && f == "scopes" {
				assignsScopes = true
			}
			if f, ok := selectorOn(info, l, "scopeinfo"); ok && f != "depth" && f != "variables" && f != "funcs" {
				fields = append(fields, f)
			}
		}
		return true
	})
	// accepted idiom 2: a scopeinfo field assigned here that the lookup functions read as a loop bound
	bounded := false
	for _, f := range fields {
		n := 0
		for _, lk := range []string{"compiler.lookupFuncOrVariable", "compiler.compileFunc"} {
			if g := c.Decl(c.Gojq, lk); g != nil {
				ast.Inspect(g.Body, func(m ast.Node) bool {
					if fs, ok := m.(*ast.ForStmt); ok && fs.Cond != nil && strings.Contains(c.Src(fs.Cond), "."+f) {
						n++
					}
					return true
				})
			}
		}
		if n >= 2 {
			bounded = true
		}
	}
	r.Check(assignsScopes || bounded, "compileModule:importer-names-visible", fd.Pos(),
		"while an aliased import is compiled the importer's own functions are %s",
		map[bool]string{true: "hidden from the lookups", false: "NOT hidden: compileModule compiles the module's definitions in the importer's symbol table, and lookupFuncOrVariable / compileFunc search every function of every open scope — `include \"m1\"; import \"m4\" as b; b::g` with m1.jq `def f: \"from m1\";` and m4.jq `def g: f;` yields \"from m1\" (jq: f/0 is not defined), and with m5.jq `def k: a::f;`, `import \"m1\" as a; import \"m5\" as c; c::k` resolves a sibling's alias inside m5"}[assignsScopes || bounded])
}

func ruleC18DataImport(c *Ctx, r *Rep) {
	fd := c.Decl(c.Gojq, "compiler.compileImport")
	if fd == nil {
		r.Undecided("compileImport", token.NoPos, "not found")
		return
	}
	var names []string
	for _, e := range getEmits(c) {
		if e.Fn != fd || e.Op != "opstore" || e.V == nil {
			continue
		}
		if call, ok := unparen(e.V).(*ast.CallExpr); ok && (calleeName(c.Gojq.TypesInfo, call) == "gojq.compiler.pushVariable" || calleeName(c.Gojq.TypesInfo, call) == "gojq.compiler.createVariable") && len(call.Args) == 1 {
			names = append(names, c.Src(call.Args[0]))
		}
	}
	has := func(s string) bool {
		for _, n := range names {
			if n == s {
				return true
			}
		}
		return false
	}
	r.Check(has("alias"), "bind:$name", fd.Pos(), "a data import stores the value under the alias itself (%v)", names)
	r.Check(has(`alias + "::" + alias[1:]`), "bind:$name::name", fd.Pos(), "a data import also stores the value under `$name::name` (%v)", names)
	// each store is preceded by a push of the loaded value
	pushes := 0
	for _, e := range getEmits(c) {
		if e.Fn == fd && e.Op == "oppush" && e.V != nil && c.Src(e.V) == "vals" {
			pushes++
		}
	}
	r.Check(pushes == len(names) && pushes == 2, "bind:pushes", fd.Pos(), "one oppush of the loaded value per binding (%d pushes, %d stores)", pushes, len(names))
}

func ruleC18Meta(c *Ctx, r *Rep) {
	info := c.Gojq.TypesInfo
	if fd := c.Decl(c.Gojq, "listModuleDefs"); fd != nil {
		ok := false
		ast.Inspect(fd.Body, func(m ast.Node) bool {
			call, isCall := m.(*ast.CallExpr)
			if !isCall || !isSortCall(info, call) || len(call.Args) < 2 {
				return true
			}
			if fl, isFL := unparen(call.Args[len(call.Args)-1]).(*ast.FuncLit); isFL {
				b := c.Src(fl.Body)
				ok = strings.Contains(b, ".name") && strings.Contains(b, ".arity")
			}
			return true
		})
		r.Check(ok, "defs:total-order", fd.Pos(), "modulemeta's defs are sorted by a comparator that reads both name and arity: %v (same name at different arities must come out in one order)", ok)
	} else {
		r.Undecided("listModuleDefs", token.NoPos, "not found")
	}
	if fd := c.Decl(c.Gojq, "listModuleDeps"); fd != nil {
		ok := false
		ast.Inspect(fd.Body, func(m ast.Node) bool {
			rs, isR := m.(*ast.RangeStmt)
			if !isR || !strings.HasSuffix(c.Src(rs.X), ".Imports") || rs.Key == nil {
				return true
			}
			key := c.Src(rs.Key)
			ast.Inspect(rs.Body, func(k ast.Node) bool {
				if as, isAs := k.(*ast.AssignStmt); isAs && len(as.Lhs) == 1 {
					if ix, isIx := as.Lhs[0].(*ast.IndexExpr); isIx && c.Src(ix.Index) == key && c.Src(ix.X) == "deps" {
						ok = true
					}
				}
				return true
			})
			return true
		})
		r.Check(ok, "deps:import-order", fd.Pos(), "modulemeta's deps are filled by import index (direct dependencies in declaration order): %v", ok)
	} else {
		r.Undecided("listModuleDeps", token.NoPos, "not found")
	}
	_ = types.Typ
}

func ruleC18InitModules(c *Ctx, r *Rep) {
	fd := c.Decl(c.Gojq, "moduleLoader.LoadInitModules")
	if fd == nil {
		r.Undecided("LoadInitModules", token.NoPos, "not found")
		return
	}
	var baseTest, dirTest bool
	ast.Inspect(fd.Body, func(m ast.Node) bool {
		ifs, ok := m.(*ast.IfStmt)
		if !ok || len(ifs.Body.List) != 1 {
			return true
		}
		b, ok := ifs.Body.List[0].(*ast.BranchStmt)
		if !ok || b.Tok != token.CONTINUE {
			return true
		}
		cs := c.Src(ifs.Cond)
		if strings.Contains(cs, "filepath.Base(") && strings.Contains(cs, `!= ".jq"`) {
			baseTest = true
		}
		if strings.Contains(cs, ".IsDir()") {
			dirTest = true
		}
		return true
	})
	r.Check(baseTest, "only-.jq", fd.Pos(), "LoadInitModules skips search entries whose base name is not `.jq`: %v (otherwise every search directory entry would be auto-included)", baseTest)
	r.Check(dirTest, "skip-directories", fd.Pos(), "LoadInitModules skips `.jq` entries that are directories (~/.jq may be a module directory): %v", dirTest)
}
