package main

import (
	"fmt"
	"go/ast"
	"go/token"
	"go/types"
	"strings"

	"golang.org/x/tools/go/types/typeutil"
)

func init() {
	regProp(&PropInfo{
		ID:    "C18",
		Title: "Modules behave as textual inclusion with namespacing",
		Decided: "narrowly, the structural skeleton of module compilation: compileModule brackets the module with scope.depth++ / a deferred depth-- that also truncates the variables the module declared, and for an aliased import a deferred pass prefixes `alias::` onto exactly the functions appended since entry — both deferred closures capture their lengths at registration, before the module's imports and definitions are compiled (R-C18-modscope); a module's own imports are compiled before its definitions (R-C18-order); " +
			"an aliased import compiles the module's bodies with the importer's own functions and imports out of sight: compileModule raises a floor on the scope's functions and variables, restores it on return, and every search through the open scopes stops at it (R-C18-isolation; the pinned tree had no such restriction, a genuine defect repaired by a fix: commit); a data import binds both `$d` and `$d::d` to the loaded value (R-C18-dataimport); modulemeta's `defs` are sorted by a total (name, arity) comparator and `deps` keep import order (R-C18-meta); ~/.jq auto-inclusion loads only regular files named .jq from the search list (R-C18-initmodules); no loader ⇒ an error, partial loaders ⇒ errors (R-C19-nilguard, R-C08-dispatch).",
		NotCovered: "name visibility in general (run-time contents of the compiler's symbol tables per module tree); search order of lookupModule beyond the shape of its two candidates (R-C18-candidates checks that the second is Join(dir, name, Base(name)+ext) after the first, which the property states; the os.Stat probes themselves are not examined); resolution of relative `search` metadata; equality of include with textual insertion.",
	})
	reg(&Rule{ID: "R-C18-modscope", Props: []string{"C18"}, Floor: 3,
		Doc: "compileModule: depth++ paired with a deferred depth-- and variable truncation; alias prefixing deferred over funcs[l:]; both lengths captured at defer registration, before the compile loops",
		Run: ruleC18ModScope})
	reg(&Rule{ID: "R-C18-order", Props: []string{"C18"}, Floor: 1,
		Doc: "compileModule and compile both compile a module's imports before its definitions/body",
		Run: ruleC18Order})
	reg(&Rule{ID: "R-C18-isolation", Props: []string{"C18"}, Floor: 1,
		Doc: "while an aliased import is compiled, the importer's own functions are hidden from the lookup functions (a saved-and-restricted scope chain or a lower bound consulted by every lookup)",
		Run: ruleC18Isolation})
	reg(&Rule{ID: "R-C18-dataimport", Props: []string{"C18"}, Floor: 2,
		Doc: "a data import stores the loaded value under both `$name` and `$name::name`",
		Run: ruleC18DataImport})
	reg(&Rule{ID: "R-C18-meta", Props: []string{"C18"}, Floor: 2,
		Doc: "listModuleDefs sorts by a comparator reading name and arity; listModuleDeps fills deps by import index",
		Run: ruleC18Meta})
	reg(&Rule{ID: "R-C18-initmodules", Props: []string{"C18"}, Floor: 2,
		Doc: "LoadInitModules skips search entries whose base name is not .jq and entries that are directories",
		Run: ruleC18InitModules})
}

func ruleC18ModScope(c *Ctx, r *Rep) {
	info := c.Gojq.TypesInfo
	fd := c.Decl(c.Gojq, "compiler.compileModule")
	if fd == nil {
		r.Undecided("compileModule", token.NoPos, "not found")
		return
	}
	var firstLoop token.Pos
	ast.Inspect(fd.Body, func(m ast.Node) bool {
		if rs, ok := m.(*ast.RangeStmt); ok && !firstLoop.IsValid() {
			firstLoop = rs.Pos()
		}
		return true
	})
	var incPos token.Pos
	ast.Inspect(fd.Body, func(m ast.Node) bool {
		if id, ok := m.(*ast.IncDecStmt); ok && id.Tok == token.INC && strings.HasSuffix(c.Src(id.X), ".depth") {
			incPos = id.Pos()
		}
		return true
	})
	r.Check(incPos.IsValid() && incPos < firstLoop, "depth++", fd.Pos(), "compileModule raises the scope depth before compiling anything of the module: %v", incPos.IsValid() && incPos < firstLoop)
	var defers []*ast.DeferStmt
	ast.Inspect(fd.Body, func(m ast.Node) bool {
		if d, ok := m.(*ast.DeferStmt); ok {
			defers = append(defers, d)
		}
		return true
	})
	restore, prefix := false, false
	for _, d := range defers {
		fl, ok := d.Call.Fun.(*ast.FuncLit)
		if !ok {
			continue
		}
		body := c.Src(fl.Body)
		// the captured length is the parameter of the literal that bounds a slice of scope.X in the body; its argument
		// is len(scope.X), evaluated when the defer is registered
		capOf := func(field string) string {
			res := ""
			ast.Inspect(fl.Body, func(q ast.Node) bool {
				se, ok := q.(*ast.SliceExpr)
				if !ok {
					return true
				}
				sel, ok := ast.Unparen(se.X).(*ast.SelectorExpr)
				if !ok || sel.Sel.Name != field {
					return true
				}
				bound := se.Low
				if bound == nil {
					bound = se.High
				}
				id, ok := bound.(*ast.Ident)
				if !ok {
					return true
				}
				k := 0
				for _, f := range fl.Type.Params.List {
					for _, nm := range f.Names {
						if info.Defs[nm] != nil && info.Defs[nm] == info.Uses[id] && k < len(d.Call.Args) {
							res = c.Src(d.Call.Args[k])
						}
						k++
					}
				}
				return true
			})
			return res
		}
		capArg := ""
		early := d.Pos() < firstLoop
		switch {
		case strings.Contains(body, ".depth--") && strings.Contains(body, ".variables = ") && strings.Contains(body, ".variables[:"):
			capArg = capOf("variables")
			ok := early && capArg == "len(scope.variables)"
			restore = restore || ok
			r.Check(ok, "defer:restore", d.Pos(), "deferred closure lowers the depth again and truncates scope.variables to the length captured at registration (%q), registered before the compile loops: %v — variables a module declares must not outlive it", capArg, ok)
		case strings.Contains(body, `+ "::" +`) && strings.Contains(body, ".funcs["):
			// inside `if alias != ""`
			guarded := false
			walkStack(fd.Body, func(n ast.Node, stack []ast.Node) bool {
				if n == ast.Node(d) {
					for _, a := range stack {
						if ifs, ok := a.(*ast.IfStmt); ok && strings.Contains(c.Src(ifs.Cond), `alias != ""`) {
							guarded = true
						}
					}
				}
				return true
			})
			capArg = capOf("funcs")
			ok := early && capArg == "len(scope.funcs)" && guarded
			// every function the module added is renamed: the loop body is the assignment alone (a skip for names that
			// already carry a prefix lets a module's own imports show through its alias)
			uncond := false
			ast.Inspect(fl.Body, func(q ast.Node) bool {
				if rs, ok := q.(*ast.RangeStmt); ok {
					uncond = len(rs.Body.List) > 0
					for _, st := range rs.Body.List {
						if _, ok := st.(*ast.AssignStmt); !ok {
							uncond = false
						}
					}
				}
				return true
			})
			r.Check(uncond, "defer:prefix:unconditional", d.Pos(), "the prefixing loop renames every function the module added, without a condition or a skip: %v (double prefixing is what hides the imports of an imported module: a::b::f cannot be written)", uncond)
			prefix = prefix || ok
			r.Check(ok, "defer:prefix", d.Pos(), "for an aliased import a deferred closure prefixes `alias::` onto scope.funcs[l:] with l = %q captured at registration, before the module is compiled: %v — capturing the length late would leave the module's functions unprefixed; a lower index would rename the importer's own functions", capArg, ok)
		}
	}
	if !restore {
		r.Bad("defer:restore:missing", fd.Pos(), "compileModule has no deferred depth-- with variable truncation")
	}
	if !prefix {
		r.Bad("defer:prefix:missing", fd.Pos(), "compileModule has no deferred alias prefixing over the functions added by the module")
	}
	_ = info
}

func ruleC18Order(c *Ctx, r *Rep) {
	for _, fn := range []string{"compiler.compileModule", "compiler.compile"} {
		fd := c.Decl(c.Gojq, fn)
		if fd == nil {
			r.Undecided(fn, token.NoPos, "not found")
			continue
		}
		var imp, body token.Pos
		ast.Inspect(fd.Body, func(m ast.Node) bool {
			if call, ok := m.(*ast.CallExpr); ok {
				switch calleeName(c.Gojq.TypesInfo, call) {
				case "gojq.compiler.compileImport":
					if !imp.IsValid() {
						imp = call.Pos()
					}
				case "gojq.compiler.compileFuncDef", "gojq.compiler.compileQuery":
					if !body.IsValid() {
						body = call.Pos()
					}
				}
			}
			return true
		})
		r.Check(imp.IsValid() && body.IsValid() && imp < body, fn, fd.Pos(), "%s compiles the imports (%s) before the definitions/body (%s): a module's own imports are visible to its definitions", fn, c.Pos(imp), c.Pos(body))
	}
}

func ruleC18Isolation(c *Ctx, r *Rep) {
	info := c.Gojq.TypesInfo
	fd := c.Decl(c.Gojq, "compiler.compileModule")
	if fd == nil {
		r.Undecided("compileModule", token.NoPos, "not found")
		return
	}
	// accepted idiom 1: compileModule assigns c.scopes (restricting the chain) before compiling the definitions
	assignsScopes := false
	var fields []string
	ast.Inspect(fd.Body, func(m ast.Node) bool {
		as, ok := m.(*ast.AssignStmt)
		if !ok {
			return true
		}
		for _, l := range as.Lhs {
			if f, ok := selectorOn(info, l, "compiler"); ok && f == "scopes" {
				assignsScopes = true
			}
			if f, ok := selectorOn(info, l, "scopeinfo"); ok && f != "depth" && f != "variables" && f != "funcs" {
				fields = append(fields, f)
			}
		}
		return true
	})
	// accepted idiom 2: compileModule raises two floors in the scope (a scopeinfo field set to len(scope.funcs), one
	// set to len(scope.variables)) before compiling the module, restores them on return, and every search through
	// the functions and variables of the open scopes respects them
	if assignsScopes {
		r.OK("compileModule:importer-names-visible", fd.Pos(), "compileModule restricts c.scopes while the module is compiled")
		return
	}
	var firstLoop token.Pos
	ast.Inspect(fd.Body, func(m ast.Node) bool {
		if rs, ok := m.(*ast.RangeStmt); ok && !firstLoop.IsValid() {
			if _, isLit := enclosingFuncLit(fd.Body, rs); !isLit {
				firstLoop = rs.Pos()
			}
		}
		return true
	})
	floorOf := map[string]string{} // "funcs"/"variables" -> field
	var floorPos token.Pos
	ast.Inspect(fd.Body, func(m ast.Node) bool {
		as, ok := m.(*ast.AssignStmt)
		if !ok || len(as.Lhs) != len(as.Rhs) {
			return true
		}
		if _, isLit := enclosingFuncLit(fd.Body, as); isLit {
			return true
		}
		for i, l := range as.Lhs {
			f, ok := selectorOn(info, l, "scopeinfo")
			if !ok {
				continue
			}
			call, ok := ast.Unparen(as.Rhs[i]).(*ast.CallExpr)
			if !ok || len(call.Args) != 1 || c.Src(call.Fun) != "len" {
				continue
			}
			if g, ok := selectorOn(info, call.Args[0], "scopeinfo"); ok && (g == "funcs" || g == "variables") && as.Pos() < firstLoop {
				floorOf[g] = f
				floorPos = as.Pos()
			}
		}
		return true
	})
	if floorOf["funcs"] == "" || floorOf["variables"] == "" {
		r.Check(false, "compileModule:importer-names-visible", fd.Pos(),
			"while an aliased import is compiled the importer's own functions are NOT hidden: compileModule compiles the module's definitions in the importer's symbol table, and lookupFuncOrVariable / compileFunc search every function of every open scope — `include \"m1\"; import \"m4\" as b; b::g` with m1.jq `def f: \"from m1\";` and m4.jq `def g: f;` yields \"from m1\" (jq: f/0 is not defined), and with m5.jq `def k: a::f;`, `import \"m1\" as a; import \"m5\" as c; c::k` resolves a sibling's alias inside m5 (floors found: %v)", floorOf)
		return
	}
	r.OK("compileModule:importer-names-visible", floorPos, "before compiling an aliased module compileModule raises scope.%s to len(scope.funcs) and scope.%s to len(scope.variables): what the importer defined lies below the floors", floorOf["funcs"], floorOf["variables"])
	// restored on return: a deferred literal assigns each floor from a parameter whose argument is the floor itself, read at registration
	restored := map[string]bool{}
	ast.Inspect(fd.Body, func(m ast.Node) bool {
		d, ok := m.(*ast.DeferStmt)
		if !ok {
			return true
		}
		fl, ok := d.Call.Fun.(*ast.FuncLit)
		if !ok || d.Pos() > floorPos {
			return true
		}
		ast.Inspect(fl.Body, func(q ast.Node) bool {
			as, ok := q.(*ast.AssignStmt)
			if !ok || len(as.Lhs) != len(as.Rhs) {
				return true
			}
			for i, l := range as.Lhs {
				f, ok := selectorOn(info, l, "scopeinfo")
				if !ok {
					continue
				}
				id, ok := as.Rhs[i].(*ast.Ident)
				if !ok {
					continue
				}
				k := 0
				for _, pf := range fl.Type.Params.List {
					for _, nm := range pf.Names {
						if info.Defs[nm] != nil && info.Defs[nm] == info.Uses[id] && k < len(d.Call.Args) {
							if g, ok := selectorOn(info, d.Call.Args[k], "scopeinfo"); ok && g == f {
								restored[f] = true
							}
						}
						k++
					}
				}
			}
			return true
		})
		return true
	})
	for _, k := range []string{"funcs", "variables"} {
		f := floorOf[k]
		r.Check(restored[f], "compileModule:floor-restored:"+k, floorPos, "the floor scope.%s is put back on return to the value it had when the defer was registered (before it is raised): %v — a floor left raised hides the importer's earlier definitions from the rest of the importer", f, restored[f])
	}
	// every counted search through X.funcs[j] / X.variables[j] of an open scope
	nf, nv := 0, 0
	for _, g := range c.Decls(c.Gojq) {
		if g.Body == nil {
			continue
		}
		ast.Inspect(g.Body, func(m ast.Node) bool {
			fs, ok := m.(*ast.ForStmt)
			if !ok || fs.Cond == nil {
				return true
			}
			which, idx, recv := "", "", ""
			ast.Inspect(fs.Body, func(q ast.Node) bool {
				if _, inner := q.(*ast.ForStmt); inner {
					return false
				}
				ix, ok := q.(*ast.IndexExpr)
				if !ok {
					return true
				}
				if f, ok := selectorOn(info, ix.X, "scopeinfo"); ok && (f == "funcs" || f == "variables") {
					which, idx = f, c.Src(ix.Index)
					recv = c.Src(ix.X.(*ast.SelectorExpr).X)
				}
				return true
			})
			if which == "" {
				return true
			}
			// the builtin scope holds no importer names
			if scopeIsBuiltin(c, g, recv) {
				return true
			}
			key := fmt.Sprintf("%s:%s[%s]", declKey(g), which, idx)
			switch which {
			case "funcs":
				nf++
				be, ok := ast.Unparen(fs.Cond).(*ast.BinaryExpr)
				good := false
				if ok {
					if f, isSel := selectorOn(info, be.Y, "scopeinfo"); isSel && f == floorOf["funcs"] && be.Op == token.GEQ && c.Src(be.X) == idx {
						good = true
					}
					if f, isSel := selectorOn(info, be.X, "scopeinfo"); isSel && f == floorOf["funcs"] && be.Op == token.LEQ && c.Src(be.Y) == idx {
						good = true
					}
				}
				r.Check(good, "floor:"+key, fs.Pos(), "the search through %s.funcs stops at the floor (condition `%s`): %v — a search that runs to 0 finds the importer's functions while a module is compiled", recv, c.Src(fs.Cond), good)
			case "variables":
				nv++
				// the match `.name == …` is conjoined with a test of the floor on the same index, directly or through a
				// function whose body compares its argument with the floor
				good := false
				ast.Inspect(fs.Body, func(q ast.Node) bool {
					var cond ast.Expr
					switch st := q.(type) {
					case *ast.IfStmt:
						cond = st.Cond
					default:
						return true
					}
					conj := splitAnd(cond)
					hasName, hasFloor := false, false
					for _, e := range conj {
						src := c.Src(e)
						if strings.Contains(src, ".name ==") {
							hasName = true
						}
						if mentionsFloor(c, info, e, floorOf["variables"], idx) {
							hasFloor = true
						}
					}
					if hasName && hasFloor {
						good = true
					}
					return true
				})
				r.Check(good, "floor:"+key, fs.Pos(), "the variable match in the search through %s.variables is conjoined with a test of the floor scope.%s on the same index: %v — without it a module reads the importer's `import … as $d` bindings", recv, floorOf["variables"], good)
			}
			return true
		})
	}
	r.Check(nf >= 2 && nv >= 2, "floor:census", fd.Pos(), "searches through the open scopes: %d over funcs (reviewed: lookupFuncOrVariable, compileFunc), %d over variables (reviewed: lookupVariable, lookupFuncOrVariable)", nf, nv)
}

// splitAnd flattens a conjunction.
func splitAnd(e ast.Expr) []ast.Expr {
	e = ast.Unparen(e)
	if be, ok := e.(*ast.BinaryExpr); ok && be.Op == token.LAND {
		return append(splitAnd(be.X), splitAnd(be.Y)...)
	}
	return []ast.Expr{e}
}

// mentionsFloor: e compares idx with the floor field (idx >= X.floor, possibly in a disjunction admitting more), or
// calls a function of the package with idx as an argument whose body compares that parameter with the floor.
func mentionsFloor(c *Ctx, info *types.Info, e ast.Expr, floor, idx string) bool {
	found := false
	ast.Inspect(e, func(q ast.Node) bool {
		switch x := q.(type) {
		case *ast.BinaryExpr:
			if f, ok := selectorOn(info, x.Y, "scopeinfo"); ok && f == floor && x.Op == token.GEQ && c.Src(x.X) == idx {
				found = true
			}
		case *ast.CallExpr:
			callee := typeutil.Callee(info, x)
			fn, ok := callee.(*types.Func)
			if !ok {
				return true
			}
			k := -1
			for i, a := range x.Args {
				if c.Src(a) == idx {
					k = i
				}
			}
			if k < 0 {
				return true
			}
			for _, g := range c.Decls(c.Gojq) {
				if info.Defs[g.Name] != fn || g.Body == nil {
					continue
				}
				pn, n := "", 0
				for _, pf := range g.Type.Params.List {
					for _, nm := range pf.Names {
						if n == k {
							pn = nm.Name
						}
						n++
					}
				}
				ast.Inspect(g.Body, func(z ast.Node) bool {
					if be, ok := z.(*ast.BinaryExpr); ok && be.Op == token.GEQ && c.Src(be.X) == pn {
						if f, ok := selectorOn(info, be.Y, "scopeinfo"); ok && f == floor {
							found = true
						}
					}
					return true
				})
			}
		}
		return true
	})
	return found
}

// scopeIsBuiltin: the scope variable recv of fd is initialised from the compiler's builtinScope field.
func scopeIsBuiltin(c *Ctx, fd *ast.FuncDecl, recv string) bool {
	is := false
	ast.Inspect(fd.Body, func(q ast.Node) bool {
		as, ok := q.(*ast.AssignStmt)
		if !ok || len(as.Lhs) != 1 || len(as.Rhs) != 1 {
			return true
		}
		if c.Src(as.Lhs[0]) == recv {
			if f, ok := selectorOn(c.Gojq.TypesInfo, as.Rhs[0], "compiler"); ok && f == "builtinScope" {
				is = true
			}
		}
		return true
	})
	return is
}

// enclosingFuncLit reports whether n lies inside a function literal below root.
func enclosingFuncLit(root ast.Node, n ast.Node) (*ast.FuncLit, bool) {
	var res *ast.FuncLit
	walkStack(root, func(m ast.Node, stack []ast.Node) bool {
		if m == n {
			for _, a := range stack {
				if fl, ok := a.(*ast.FuncLit); ok {
					res = fl
				}
			}
		}
		return true
	})
	return res, res != nil
}

func ruleC18DataImport(c *Ctx, r *Rep) {
	fd := c.Decl(c.Gojq, "compiler.compileImport")
	if fd == nil {
		r.Undecided("compileImport", token.NoPos, "not found")
		return
	}
	var names []string
	for _, e := range getEmits(c) {
		if e.Fn != fd || e.Op != "opstore" || e.V == nil {
			continue
		}
		if call, ok := unparen(e.V).(*ast.CallExpr); ok && (calleeName(c.Gojq.TypesInfo, call) == "gojq.compiler.pushVariable" || calleeName(c.Gojq.TypesInfo, call) == "gojq.compiler.createVariable") && len(call.Args) == 1 {
			names = append(names, c.Src(call.Args[0]))
		}
	}
	has := func(s string) bool {
		for _, n := range names {
			if n == s {
				return true
			}
		}
		return false
	}
	r.Check(has("alias"), "bind:$name", fd.Pos(), "a data import stores the value under the alias itself (%v)", names)
	r.Check(has(`alias + "::" + alias[1:]`), "bind:$name::name", fd.Pos(), "a data import also stores the value under `$name::name` (%v)", names)
	// each store is preceded by a push of the loaded value
	pushes := 0
	for _, e := range getEmits(c) {
		if e.Fn == fd && e.Op == "oppush" && e.V != nil && c.Src(e.V) == "vals" {
			pushes++
		}
	}
	r.Check(pushes == len(names) && pushes == 2, "bind:pushes", fd.Pos(), "one oppush of the loaded value per binding (%d pushes, %d stores)", pushes, len(names))
}

func ruleC18Meta(c *Ctx, r *Rep) {
	info := c.Gojq.TypesInfo
	if fd := c.Decl(c.Gojq, "listModuleDefs"); fd != nil {
		ok := false
		ast.Inspect(fd.Body, func(m ast.Node) bool {
			call, isCall := m.(*ast.CallExpr)
			if !isCall || !isSortCall(info, call) || len(call.Args) < 2 {
				return true
			}
			if fl, isFL := unparen(call.Args[len(call.Args)-1]).(*ast.FuncLit); isFL {
				b := c.Src(fl.Body)
				ok = strings.Contains(b, ".name") && strings.Contains(b, ".arity")
			}
			return true
		})
		r.Check(ok, "defs:total-order", fd.Pos(), "modulemeta's defs are sorted by a comparator that reads both name and arity: %v (same name at different arities must come out in one order)", ok)
	} else {
		r.Undecided("listModuleDefs", token.NoPos, "not found")
	}
	if fd := c.Decl(c.Gojq, "listModuleDeps"); fd != nil {
		ok := false
		ast.Inspect(fd.Body, func(m ast.Node) bool {
			rs, isR := m.(*ast.RangeStmt)
			if !isR || !strings.HasSuffix(c.Src(rs.X), ".Imports") || rs.Key == nil {
				return true
			}
			key := c.Src(rs.Key)
			ast.Inspect(rs.Body, func(k ast.Node) bool {
				if as, isAs := k.(*ast.AssignStmt); isAs && len(as.Lhs) == 1 {
					if ix, isIx := as.Lhs[0].(*ast.IndexExpr); isIx && c.Src(ix.Index) == key && c.Src(ix.X) == "deps" {
						ok = true
					}
				}
				return true
			})
			return true
		})
		r.Check(ok, "deps:import-order", fd.Pos(), "modulemeta's deps are filled by import index (direct dependencies in declaration order): %v", ok)
	} else {
		r.Undecided("listModuleDeps", token.NoPos, "not found")
	}
	_ = types.Typ
}

func ruleC18InitModules(c *Ctx, r *Rep) {
	fd := c.Decl(c.Gojq, "moduleLoader.LoadInitModules")
	if fd == nil {
		r.Undecided("LoadInitModules", token.NoPos, "not found")
		return
	}
	var baseTest, dirTest bool
	ast.Inspect(fd.Body, func(m ast.Node) bool {
		ifs, ok := m.(*ast.IfStmt)
		if !ok || len(ifs.Body.List) != 1 {
			return true
		}
		b, ok := ifs.Body.List[0].(*ast.BranchStmt)
		if !ok || b.Tok != token.CONTINUE {
			return true
		}
		cs := c.Src(ifs.Cond)
		if strings.Contains(cs, "filepath.Base(") && strings.Contains(cs, `!= ".jq"`) {
			baseTest = true
		}
		if strings.Contains(cs, ".IsDir()") {
			dirTest = true
		}
		return true
	})
	r.Check(baseTest, "only-.jq", fd.Pos(), "LoadInitModules skips search entries whose base name is not `.jq`: %v (otherwise every search directory entry would be auto-included)", baseTest)
	r.Check(dirTest, "skip-directories", fd.Pos(), "LoadInitModules skips `.jq` entries that are directories (~/.jq may be a module directory): %v", dirTest)
}
