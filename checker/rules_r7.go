package main

// Rules written in the fourth session (seventh seeding round and the remarks of its sub-agents).

import (
	"fmt"
	"go/ast"
	"go/constant"
	"go/token"
	"go/types"
	"sort"
	"strings"

	"golang.org/x/tools/go/packages"
)

// ---------------------------------------------------------------------------------------------------------------------
// R-C12-yamltab: a string that starts with a tab and has several lines does not reach the YAML encoder unquoted.
// R-C12-yamlsetstring: Node.SetString is never the last word on a scalar's style.

func init() {
	reg(&Rule{ID: "R-C12-yamltab", Props: []string{"C12"}, Floor: 1,
		Doc: "every Encode call of the YAML dependency in the command whose argument may be a Go string is preceded by a screen that gives strings starting with a tab a quoted style — premise read from the dependency: its emitter writes the indentation indicator of a literal block only when the text starts with a space or a line break, and its scanner rejects a literal block whose first line starts with a tab",
		Run: ruleYAMLTab})
	reg(&Rule{ID: "R-C12-yamlsetstring", Props: []string{"C12"}, Floor: 0,
		Doc: "a scalar node built with Node.SetString gets a quoted style before it is used: SetString tags the node !!str without looking at the text, and the encoder then writes texts such as `<<` plain, which read back as something else",
		Run: ruleYAMLSetString})
	addDecided("C12", " A string that starts with a tab and spans lines reaches the YAML encoder with a quoted style (R-C12-yamltab; D51); no scalar node is left in the style Node.SetString chose (R-C12-yamlsetstring).")
}

func isYAMLPkg(p *types.Package) bool {
	if p == nil {
		return false
	}
	pp := p.Path()
	return strings.HasSuffix(pp, "/go-yaml") || strings.HasSuffix(pp, "/yaml") || strings.Contains(pp, "yaml.v")
}

// constStrOrRune: the constant string (or rune, as a string) value of e, if it has one.
func constStrOrRune(info *types.Info, e ast.Expr) (string, bool) {
	tv, ok := info.Types[e]
	if !ok || tv.Value == nil {
		return "", false
	}
	switch tv.Value.Kind() {
	case constant.String:
		return constant.StringVal(tv.Value), true
	case constant.Int:
		if v, ok := constant.Int64Val(tv.Value); ok && v >= 0 && v < 0x110000 {
			return string(rune(v)), true
		}
	}
	return "", false
}

func ruleYAMLTab(c *Ctx, r *Rep) {
	p := c.Cli
	info := p.TypesInfo
	// premise from the dependency: the function that writes the block scalar hints decides on the first byte
	depSeen, depHandlesTab := false, false
	needChars := "\t"
	packages.Visit(c.All, nil, func(dp *packages.Package) {
		if dp.Types == nil || !isYAMLPkg(dp.Types) {
			return
		}
		for _, f := range dp.Syntax {
			for _, d := range f.Decls {
				fd, ok := d.(*ast.FuncDecl)
				if !ok || fd.Body == nil {
					continue
				}
				nm := strings.ToLower(strings.ReplaceAll(fd.Name.Name, "_", ""))
				if !strings.Contains(nm, "blockscalarhints") {
					continue
				}
				depSeen = true
				ast.Inspect(fd.Body, func(m ast.Node) bool {
					if call, ok := m.(*ast.CallExpr); ok {
						switch strings.ToLower(strings.ReplaceAll(types.ExprString(call.Fun), "_", "")) {
						case "istab", "isblank", "isblankz":
							depHandlesTab = true
						}
					}
					// the indicator is the configured indent, not the indentation of the node: wrong for a block scalar that is
					// a sequence entry unless the indent is 2 — so the texts that get an indicator need the screen as well
					if sel, ok := m.(*ast.SelectorExpr); ok && strings.ToLower(strings.ReplaceAll(sel.Sel.Name, "_", "")) == "bestindent" {
						needChars = "\t \n"
					}
					return true
				})
			}
		}
	})
	if !depSeen {
		r.Undecided("yamltab:dependency", token.NoPos, "the emitter function that writes the hints of a block scalar was not found in the YAML dependency")
		return
	}
	n := 0
	for _, fd := range c.Decls(p) {
		walkStack(fd.Body, func(m ast.Node, stack []ast.Node) bool {
			call, ok := m.(*ast.CallExpr)
			if !ok || len(call.Args) != 1 {
				return true
			}
			f, ok := callee(info, call).(*types.Func)
			if !ok || f.Name() != "Encode" || !isYAMLPkg(f.Pkg()) {
				return true
			}
			arg := unparen(call.Args[0])
			t := info.TypeOf(arg)
			if t == nil {
				return true
			}
			mayString := yamlArgMayHold(info, arg, stack, func(tt types.Type) bool {
				b, ok := tt.Underlying().(*types.Basic)
				if !ok || b.Info()&types.IsString == 0 {
					return false
				}
				// json.Number has its own case in the encoder and holds the text of a number
				if nt, ok := tt.(*types.Named); ok && nt.Obj().Pkg() != nil && nt.Obj().Pkg().Path() == "encoding/json" && nt.Obj().Name() == "Number" {
					return false
				}
				return true
			})
			if !mayString {
				return true
			}
			n++
			key := "yamltab:" + declKey(fd) + ":" + c.Src(call)
			if depHandlesTab {
				r.OK(key, call.Pos(), "the dependency's emitter writes the indentation indicator for a text that starts with a tab itself")
				return true
			}
			// a screen before the call, in one of the enclosing statement lists
			screened, unclear, insufficient := false, "", ""
			for i := len(stack) - 1; i >= 0; i-- {
				var list []ast.Stmt
				switch b := stack[i].(type) {
				case *ast.BlockStmt:
					list = b.List
				case *ast.CaseClause:
					list = b.Body
				default:
					continue
				}
				for _, st := range list {
					if st.End() > call.Pos() {
						break
					}
					ifs, ok := st.(*ast.IfStmt)
					if !ok {
						continue
					}
					setsQuoted := false
					ast.Inspect(ifs.Body, func(q ast.Node) bool {
						if as, ok := q.(*ast.AssignStmt); ok && len(as.Lhs) == 1 && len(as.Rhs) == 1 {
							if sel, ok := as.Lhs[0].(*ast.SelectorExpr); ok && sel.Sel.Name == "Style" && isQuotedStyle(info, as.Rhs[0]) {
								setsQuoted = true
							}
						}
						return true
					})
					if !setsQuoted || len(ifs.Body.List) == 0 {
						continue
					}
					if _, ret := ifs.Body.List[len(ifs.Body.List)-1].(*ast.ReturnStmt); !ret {
						continue
					}
					// which strings take the branch
					tab, nl, other := false, false, false
					covered := ""
					ast.Inspect(ifs.Cond, func(q ast.Node) bool {
						if e, ok := q.(ast.Expr); ok {
							if s, ok := constString(info, e); ok {
								if len(s) > 1 && strings.Trim(s, " \t\n\r") == "" {
									// a set of leading characters, e.g. " \t\n"
									covered += s
									if strings.Contains(s, "\t") {
										tab = true
									}
									return false
								}
								switch s {
								case "\t":
									tab = true
									covered += s
								case "\n":
									nl = true
								case " ":
									covered += s
								default:
									if _, isLit := e.(*ast.BasicLit); isLit && info.Types[e].Value.Kind() == constant.String {
										other = true
									}
								}
								return false
							}
						}
						return true
					})
					conj := splitAnd(ifs.Cond)
					switch {
					case tab && !other && len(conj) <= 2 && func() bool {
						for _, ch := range needChars {
							if !strings.ContainsRune(covered, ch) {
								return false
							}
						}
						return true
					}():
						// starts-with-tab, alone or together with has-a-newline
						prefix := false
						ast.Inspect(ifs.Cond, func(q ast.Node) bool {
							switch x := q.(type) {
							case *ast.CallExpr:
								if calleeName(info, x) == "strings.HasPrefix" {
									prefix = true
								}
							case *ast.IndexExpr:
								if s, ok := constStrOrRune(info, x.Index); ok && s == "\x00" {
									prefix = true
								}
							}
							return true
						})
						if prefix {
							screened = true
						} else {
							unclear = c.Src(ifs.Cond)
						}
					case tab && !other && len(conj) <= 2:
						insufficient = c.Src(ifs.Cond) // understood, and it leaves out leading characters that need the screen
					case nl && !tab && !other && len(conj) == 1:
						screened = true // every string of several lines is quoted
					default:
						unclear = c.Src(ifs.Cond)
					}
				}
			}
			switch {
			case !screened && insufficient != "":
				r.Bad(key, call.Pos(), "the screen `%s` before %s covers the tab but not every leading character that needs it (%q): a multi-line string that starts with a space or a line break gets an indentation indicator taken from the configured indent, which is wrong for a sequence entry unless the indent is 2 — `gojq -n --yaml-output --indent 4 '[\" a\\nb\"]'` cannot be read back by --yaml-input", insufficient, c.Src(call), needChars)
			case screened:
				r.OK(key, call.Pos(), "a string that starts with a tab (and has several lines) is given a quoted style and returned before %s is reached", c.Src(call))
			case unclear != "":
				r.Undecided(key, call.Pos(), "a branch before %s quotes some strings, but its condition `%s` is not one of the two understood screens (starts with a tab; has several lines)", c.Src(call), unclear)
			default:
				r.Bad(key, call.Pos(), "%s may be handed a Go string, and nothing before it quotes every multi-line string that starts with one of "+fmt.Sprintf("%q", needChars)+" (a space or line break gets an indentation indicator taken from the configured indent, wrong for a sequence entry unless the indent is 2: `--yaml-output --indent 4 '[\\\" a\\\\nb\\\"]'` cannot be read back); for the tab: the encoder writes `\"\\t\\na\"` as a literal block without an indentation indicator (its emitter gives one only after a leading space or line break), which the decoder — --yaml-input, or the re-parse inside Node.Encode — rejects with `found a tab character where an indentation space is expected`", c.Src(call))
			}
			return true
		})
	}
	if n == 0 {
		r.Undecided("yamltab:census", token.NoPos, "no Encode call of the YAML dependency in the command may be handed a string")
	}
}

// isQuotedStyle: e is (a disjunction containing) the dependency's DoubleQuotedStyle or SingleQuotedStyle.
func isQuotedStyle(info *types.Info, e ast.Expr) bool {
	found := false
	ast.Inspect(e, func(q ast.Node) bool {
		var id *ast.Ident
		switch x := q.(type) {
		case *ast.SelectorExpr:
			id = x.Sel
		case *ast.Ident:
			id = x
		}
		if id != nil {
			if o, ok := info.Uses[id].(*types.Const); ok && isYAMLPkg(o.Pkg()) && (o.Name() == "DoubleQuotedStyle" || o.Name() == "SingleQuotedStyle") {
				found = true
			}
		}
		return true
	})
	return found
}

func ruleYAMLSetString(c *Ctx, r *Rep) {
	p := c.Cli
	info := p.TypesInfo
	n := 0
	for _, fd := range c.Decls(p) {
		walkStack(fd.Body, func(m ast.Node, stack []ast.Node) bool {
			es, ok := m.(*ast.ExprStmt)
			var call *ast.CallExpr
			if ok {
				call, _ = es.X.(*ast.CallExpr)
			}
			if call == nil {
				if cx, ok := m.(*ast.CallExpr); ok {
					if f, ok := callee(info, cx).(*types.Func); ok && f.Name() == "SetString" && isYAMLPkg(f.Pkg()) {
						// a SetString that is not a statement of its own: look at its statement through the stack
						for i := len(stack) - 1; i >= 0; i-- {
							if s, ok := stack[i].(*ast.ExprStmt); ok && s.X == ast.Expr(cx) {
								return true // handled as the statement
							}
						}
						n++
						r.Undecided("yamlsetstring:"+declKey(fd)+":"+c.Src(cx), cx.Pos(), "SetString is used inside a larger statement; the style that follows cannot be read off")
					}
				}
				return true
			}
			f, ok := callee(info, call).(*types.Func)
			if !ok || f.Name() != "SetString" || !isYAMLPkg(f.Pkg()) {
				return true
			}
			n++
			sel, _ := call.Fun.(*ast.SelectorExpr)
			recv := ""
			if sel != nil {
				recv = c.Src(sel.X)
			}
			key := "yamlsetstring:" + declKey(fd) + ":" + c.Src(call)
			// the statement list holding the call
			var list []ast.Stmt
			for i := len(stack) - 1; i >= 0 && list == nil; i-- {
				switch b := stack[i].(type) {
				case *ast.BlockStmt:
					list = b.List
				case *ast.CaseClause:
					list = b.Body
				}
			}
			quoted := false
			after := false
			for _, st := range list {
				if st == ast.Stmt(es) {
					after = true
					continue
				}
				if !after {
					continue
				}
				as, ok := st.(*ast.AssignStmt)
				if ok && len(as.Lhs) == 1 && len(as.Rhs) == 1 {
					if s2, ok := as.Lhs[0].(*ast.SelectorExpr); ok && s2.Sel.Name == "Style" && c.Src(s2.X) == recv && isQuotedStyle(info, as.Rhs[0]) {
						quoted = true
					}
					continue
				}
				break // anything else (a return, a use of the node) ends the search
			}
			r.Check(quoted, key, call.Pos(), "after %s the node's style is set to a quoted one before anything else happens: %v — SetString tags the scalar !!str whatever the text; the encoder then drops the tag and writes the text plain where the text alone would not resolve to a string in its table but is still legal plain text, e.g. the key `<<`, which reads back as a merge", c.Src(call), quoted)
			return true
		})
	}
	if n == 0 {
		r.OK("yamlsetstring:none", token.NoPos, "the command builds no scalar node with Node.SetString")
	}
}

// ---------------------------------------------------------------------------------------------------------------------
// R-C17-rebase: what an input iterator discards from the captured input it counts, and what it counts reaches the message.

func init() {
	reg(&Rule{ID: "R-C17-rebase", Props: []string{"C17"}, Floor: 2,
		Doc: "an input iterator that discards the front of the captured input keeps counters beside the discard (bytes or characters, lines); each counter is read again where the iterator builds its parse error, and the field of the error value it lands in is read by that error's Error method — positions reported by the decoder are absolute, the captured text is not",
		Run: ruleC17Rebase})
	addDecided("C17", " What an input iterator discards from the captured input is counted, and every such counter reaches the error message (R-C17-rebase).")
}

func ruleC17Rebase(c *Ctx, r *Rep) {
	p := c.Cli
	info := p.TypesInfo
	n := 0
	for _, fd := range c.Decls(p) {
		if fd.Recv == nil || len(fd.Recv.List) == 0 || len(fd.Recv.List[0].Names) == 0 {
			continue
		}
		recvObj := info.Defs[fd.Recv.List[0].Names[0]]
		if recvObj == nil {
			continue
		}
		isRecvField := func(e ast.Expr) (string, bool) {
			sel, ok := unparen(e).(*ast.SelectorExpr)
			if !ok {
				return "", false
			}
			id, ok := sel.X.(*ast.Ident)
			if !ok || info.Uses[id] != recvObj {
				return "", false
			}
			if _, isVar := info.Uses[sel.Sel].(*types.Var); !isVar {
				return "", false
			}
			return sel.Sel.Name, true
		}
		// the statement lists that hold a discarding call on a *bytes.Buffer
		var blocks [][]ast.Stmt
		walkStack(fd.Body, func(m ast.Node, stack []ast.Node) bool {
			call, ok := m.(*ast.CallExpr)
			if !ok {
				return true
			}
			sel, ok := call.Fun.(*ast.SelectorExpr)
			if !ok || (sel.Sel.Name != "Next" && sel.Sel.Name != "Truncate") {
				return true
			}
			if t := info.TypeOf(sel.X); t == nil || !strings.HasSuffix(t.String(), "bytes.Buffer") {
				return true
			}
			for i := len(stack) - 1; i >= 0; i-- {
				if b, ok := stack[i].(*ast.BlockStmt); ok {
					blocks = append(blocks, b.List)
					break
				}
			}
			return true
		})
		if len(blocks) == 0 {
			continue
		}
		inBlocks := func(pos token.Pos) bool {
			for _, b := range blocks {
				if len(b) > 0 && b[0].Pos() <= pos && pos < b[len(b)-1].End() {
					return true
				}
			}
			return false
		}
		counters := map[string]token.Pos{}
		for _, b := range blocks {
			for _, st := range b {
				ast.Inspect(st, func(m ast.Node) bool {
					switch x := m.(type) {
					case *ast.AssignStmt:
						if x.Tok == token.ADD_ASSIGN || x.Tok == token.SUB_ASSIGN {
							if f, ok := isRecvField(x.Lhs[0]); ok {
								counters[f] = x.Pos()
							}
						}
					case *ast.IncDecStmt:
						if f, ok := isRecvField(x.X); ok {
							counters[f] = x.Pos()
						}
					}
					return true
				})
			}
		}
		var cnames []string
		for f := range counters {
			cnames = append(cnames, f)
		}
		sort.Strings(cnames)
		for _, f := range cnames {
			pos := counters[f]
			n++
			key := "rebase:" + declKey(fd) + ":" + f
			// read under `err != nil`, outside the discard blocks
			usedInError := false
			var errField []string // fields of an error composite literal the counter is stored in
			walkStack(fd.Body, func(m ast.Node, stack []ast.Node) bool {
				g, ok := isRecvField(exprOf(m))
				if !ok || g != f || inBlocks(m.Pos()) {
					return true
				}
				// not the left-hand side of an assignment
				if len(stack) > 0 {
					if as, ok := stack[len(stack)-1].(*ast.AssignStmt); ok {
						for _, l := range as.Lhs {
							if l == m {
								return true
							}
						}
					}
				}
				under := false
				for i := len(stack) - 1; i >= 0; i-- {
					if ifs, ok := stack[i].(*ast.IfStmt); ok {
						if be, ok := unparen(ifs.Cond).(*ast.BinaryExpr); ok && be.Op == token.NEQ {
							if t := info.TypeOf(be.X); t != nil && types.Implements(t, errorIface()) {
								under = true
							}
						}
					}
					if cl, ok := stack[i].(*ast.CompositeLit); ok {
						t := info.TypeOf(cl)
						if t != nil && (types.Implements(t, errorIface()) || types.Implements(types.NewPointer(t), errorIface())) {
							if st, ok := t.Underlying().(*types.Struct); ok {
								for k, e := range cl.Elts {
									val := e
									name := ""
									if kv, ok := e.(*ast.KeyValueExpr); ok {
										val = kv.Value
										name = kv.Key.(*ast.Ident).Name
									} else if k < st.NumFields() {
										name = st.Field(k).Name()
									}
									if val.Pos() <= m.Pos() && m.End() <= val.End() {
										errField = append(errField, typeName(t)+"."+name)
										under = true // building the error value is reporting it, wherever that happens
									}
								}
							}
						}
					}
				}
				// an adjustment of a field of an error value: e.Offset -= i.offset
				for i := len(stack) - 1; i >= 0 && !under; i-- {
					if as, ok := stack[i].(*ast.AssignStmt); ok && len(as.Lhs) == 1 {
						if sel, ok := unparen(as.Lhs[0]).(*ast.SelectorExpr); ok {
							if t := info.TypeOf(sel.X); t != nil && (types.Implements(t, errorIface()) || types.Implements(types.NewPointer(t), errorIface())) {
								under = true
							}
						}
					}
				}
				if under {
					usedInError = true
				}
				return true
			})
			r.Check(usedInError, key, pos, "%s counts what it discards from the captured input in the field %s, and reads %s again where it reports a parse error: %v — the decoder's positions are absolute, the captured text starts after what was discarded", declKey(fd), f, f, usedInError)
			for _, ef := range errField {
				tn, fn, _ := strings.Cut(ef, ".")
				ed := c.Decl(p, tn+".Error")
				read := false
				if ed != nil {
					ast.Inspect(ed.Body, func(m ast.Node) bool {
						if sel, ok := m.(*ast.SelectorExpr); ok && sel.Sel.Name == fn {
							if id, ok := sel.X.(*ast.Ident); ok && ed.Recv != nil && len(ed.Recv.List[0].Names) > 0 && info.Uses[id] == info.Defs[ed.Recv.List[0].Names[0]] {
								read = true
							}
						}
						return true
					})
				}
				r.Check(read, key+"→"+ef, pos, "the counter %s is stored in %s, which %s.Error reads: %v", f, ef, tn, read)
			}
		}
	}
	if n == 0 {
		r.Undecided("rebase:census", token.NoPos, "no input iterator counts what it discards from a bytes.Buffer")
	}
}

func exprOf(n ast.Node) ast.Expr {
	if e, ok := n.(ast.Expr); ok {
		return e
	}
	return nil
}

func typeName(t types.Type) string {
	if p, ok := t.(*types.Pointer); ok {
		t = p.Elem()
	}
	if nt, ok := t.(*types.Named); ok {
		return nt.Obj().Name()
	}
	return t.String()
}

var errorIfaceV *types.Interface

func errorIface() *types.Interface {
	if errorIfaceV == nil {
		errorIfaceV = types.Universe.Lookup("error").Type().Underlying().(*types.Interface)
	}
	return errorIfaceV
}

// ---------------------------------------------------------------------------------------------------------------------
// R-C04-errexitsib: a VM clause shared by several opcodes treats all its error exits alike.

func init() {
	reg(&Rule{ID: "R-C04-errexitsib", Props: []string{"C04", "C02"}, Floor: 1,
		Doc: "in a clause of the VM's dispatch switch that serves several opcodes, either every place that raises an error depends on which opcode is running or none does: an opcode added as the quiet variant of another (an optional index that backtracks instead of failing) which silences one error of the clause and not its sibling (the invalid-path error raised a few lines above) behaves like the try wrapper it replaces only outside path expressions",
		Run: ruleErrExitSib})
	addDecided("C04", " A VM clause serving several opcodes treats its error exits alike (R-C04-errexitsib).")
}

func ruleErrExitSib(c *Ctx, r *Rep) {
	vm := getVM(c)
	if vm.Err != "" {
		r.Undecided("vm-model", token.NoPos, "%s", vm.Err)
		return
	}
	errObj, codeObj := vm.Vars["err"], vm.Vars["code"]
	n := 0
	for _, cl := range vm.Clauses {
		if len(cl.Ops) < 2 {
			continue
		}
		n++
		type site struct {
			pos token.Pos
			dep bool
		}
		var sites []site
		walkStack(cl.CC, func(m ast.Node, stack []ast.Node) bool {
			if _, ok := m.(*ast.FuncLit); ok {
				return false
			}
			as, ok := m.(*ast.AssignStmt)
			if !ok {
				return true
			}
			for i, l := range as.Lhs {
				id, ok := l.(*ast.Ident)
				if !ok || vm.info.ObjectOf(id) != errObj {
					continue
				}
				if i < len(as.Rhs) && isNilIdent(as.Rhs[i]) {
					continue
				}
				// quieted: the assignment is the whole body of an `if` on code.op, and the leaving that follows is not under it
				dep := false
				if len(stack) >= 2 {
					if blk, ok := stack[len(stack)-1].(*ast.BlockStmt); ok && len(blk.List) == 1 {
						if ifs, ok := stack[len(stack)-2].(*ast.IfStmt); ok && ifs.Body == blk && mentions(ifs.Cond, func(e ast.Expr) bool {
							sel, ok := e.(*ast.SelectorExpr)
							if !ok || sel.Sel.Name != "op" {
								return false
							}
							x, ok := unparen(sel.X).(*ast.Ident)
							return ok && vm.info.ObjectOf(x) == codeObj
						}) {
							dep = true
						}
					}
				}
				sites = append(sites, site{as.Pos(), dep})
			}
			return true
		})
		key := "errexitsib:" + strings.Join(cl.Ops, ",")
		deps := 0
		for _, s := range sites {
			if s.dep {
				deps++
			}
		}
		if deps != 0 && deps != len(sites) {
			var where []string
			for _, s := range sites {
				where = append(where, fmt.Sprintf("%s(%s)", c.Pos(s.pos), map[bool]string{true: "silenced by code.op", false: "for every opcode that gets here"}[s.dep]))
			}
			r.Bad(key, cl.CC.Pos(), "the clause of %s raises errors in %d places and %d of them are silenced for some opcode (the assignment to err alone is under a test of code.op, the exit is not): %s — the opcode that is spared one error still gets the other (inside a path expression an optional constant index on a value that is not the current location raised the invalid-path error that `try` used to swallow)", strings.Join(cl.Ops, ", "), len(sites), deps, strings.Join(where, "; "))
			continue
		}
		r.OK(key, cl.CC.Pos(), "%d error-raising places, %d silenced for some opcode", len(sites), deps)
	}
	if n == 0 {
		r.Undecided("errexitsib:census", token.NoPos, "no clause of the dispatch switch serves several opcodes")
	}
}

// ---------------------------------------------------------------------------------------------------------------------
// R-C15-trywrap: every error that passes the end of a try body is wrapped.

func init() {
	reg(&Rule{ID: "R-C15-trywrap", Props: []string{"C15", "C01"}, Floor: 1,
		Doc: "opforktryend wraps the error it sees on backtracking whenever there is one: the wrap is guarded by `err != nil` and by nothing else, except tests for the error types that opforktrybegin lets through untouched anyway — an error that passes unwrapped was raised after the try body finished and would be caught by that try",
		Run: ruleTryWrap})
	addDecided("C15", " Every error passing the end of a try body is wrapped for the matching begin to unwrap (R-C15-trywrap).")
}

func ruleTryWrap(c *Ctx, r *Rep) {
	vm := getVM(c)
	if vm.Err != "" {
		r.Undecided("vm-model", token.NoPos, "%s", vm.Err)
		return
	}
	end, begin := vm.ByOp["opforktryend"], vm.ByOp["opforktrybegin"]
	if end == nil || begin == nil {
		r.Undecided("trywrap:clauses", token.NoPos, "opforktryend / opforktrybegin clause not found")
		return
	}
	errObj := vm.Vars["err"]
	// the types opforktrybegin passes through: arms of its type switch over err whose body only leaves
	pass := map[string]bool{}
	ast.Inspect(begin.CC, func(m ast.Node) bool {
		ts, ok := m.(*ast.TypeSwitchStmt)
		if !ok {
			return true
		}
		for _, s := range ts.Body.List {
			cc := s.(*ast.CaseClause)
			if len(cc.Body) == 1 {
				if br, ok := cc.Body[0].(*ast.BranchStmt); ok && br.Tok == token.BREAK && br.Label != nil {
					for _, e := range cc.List {
						pass[types.ExprString(e)] = true
					}
				}
			}
		}
		return true
	})
	found := false
	walkStack(end.CC, func(m ast.Node, stack []ast.Node) bool {
		as, ok := m.(*ast.AssignStmt)
		if !ok || len(as.Lhs) != 1 || len(as.Rhs) != 1 {
			return true
		}
		id, ok := as.Lhs[0].(*ast.Ident)
		if !ok || vm.info.ObjectOf(id) != errObj {
			return true
		}
		u, ok := unparen(as.Rhs[0]).(*ast.UnaryExpr)
		if !ok || u.Op != token.AND {
			return true
		}
		cl, ok := u.X.(*ast.CompositeLit)
		if !ok || len(cl.Elts) != 1 {
			return true
		}
		if eid, ok := cl.Elts[0].(*ast.Ident); !ok || vm.info.ObjectOf(eid) != errObj {
			return true
		}
		found = true
		// the conditions between the clause and the wrap
		var extra []string
		for _, a := range stack {
			ifs, ok := a.(*ast.IfStmt)
			if !ok {
				continue
			}
			if ifs.Init != nil {
				// `_, ok := err.(*T)` with T a pass-through type is harmless
				okInit := false
				if ia, ok := ifs.Init.(*ast.AssignStmt); ok && len(ia.Rhs) == 1 {
					if ta, ok := unparen(ia.Rhs[0]).(*ast.TypeAssertExpr); ok && ta.Type != nil && pass[types.ExprString(ta.Type)] {
						okInit = true
					}
				}
				if !okInit {
					extra = append(extra, c.Src(ifs.Init))
				}
			}
			for _, cj := range splitAnd(ifs.Cond) {
				cj = unparen(cj)
				if id, ok := cj.(*ast.Ident); ok && id.Name == "backtrack" {
					continue
				}
				if be, ok := cj.(*ast.BinaryExpr); ok && be.Op == token.NEQ && isNilIdent(be.Y) {
					if x, ok := unparen(be.X).(*ast.Ident); ok && vm.info.ObjectOf(x) == errObj {
						continue
					}
				}
				// !isHaltError(err) and the like: a call of a predicate whose name mentions a pass-through type
				src := c.Src(cj)
				harmless := false
				for t := range pass {
					if strings.Contains(src, strings.TrimPrefix(t, "*")) || strings.Contains(strings.ToLower(src), strings.ToLower(strings.TrimPrefix(t, "*"))) {
						harmless = true
					}
				}
				if ifs.Init != nil && (src == "ok" || src == "!ok") && len(extra) == 0 {
					harmless = true
				}
				if !harmless {
					extra = append(extra, src)
				}
			}
		}
		r.Check(len(extra) == 0, "trywrap:opforktryend", as.Pos(), "the wrap `%s` happens for every error seen on backtracking (conditions besides `backtrack` and `err != nil`: %v; pass-through types of opforktrybegin: %v): %v — an error that passes the end of a try body unwrapped is caught by that try although it was raised after the body had produced its output: `try (.[]? | .) | error(\"x\")` loses the error, exit status 0", c.Src(as), extra, sortedKeys(pass), len(extra) == 0)
		return true
	})
	if !found {
		r.Bad("trywrap:opforktryend", end.CC.Pos(), "the clause of opforktryend does not wrap the error into a composite literal that holds it")
	}
}

// ---------------------------------------------------------------------------------------------------------------------
// R-C15-exitpass: the exit status an error asks for is the exit status of the command.

func init() {
	reg(&Rule{ID: "R-C15-exitpass", Props: []string{"C15"}, Floor: 1,
		Doc: "where the command turns an error into its exit status, an error that has an ExitCode method decides the status by that method alone: the value of the call is returned, not compared, clamped or replaced",
		Run: ruleExitPass})
	addDecided("C15", " The status an error asks for through ExitCode is returned as it is (R-C15-exitpass).")
}

func ruleExitPass(c *Ctx, r *Rep) {
	p := c.Cli
	info := p.TypesInfo
	n := 0
	for _, fd := range c.Decls(p) {
		// functions returning int that type-assert an error to an interface with ExitCode
		if fd.Type.Results == nil || len(fd.Type.Results.List) != 1 || types.ExprString(fd.Type.Results.List[0].Type) != "int" {
			continue
		}
		ast.Inspect(fd.Body, func(m ast.Node) bool {
			ifs, ok := m.(*ast.IfStmt)
			if !ok || ifs.Init == nil {
				return true
			}
			ia, ok := ifs.Init.(*ast.AssignStmt)
			if !ok || len(ia.Rhs) != 1 {
				return true
			}
			ta, ok := unparen(ia.Rhs[0]).(*ast.TypeAssertExpr)
			if !ok || ta.Type == nil {
				return true
			}
			it, ok := info.TypeOf(ta.Type).Underlying().(*types.Interface)
			if !ok {
				return true
			}
			has := false
			for i := 0; i < it.NumMethods(); i++ {
				if it.Method(i).Name() == "ExitCode" {
					has = true
				}
			}
			if !has {
				return true
			}
			n++
			key := "exitpass:" + declKey(fd)
			// the body returns the call — directly, or through a variable assigned from it — and does so unconditionally:
			// no branch in the body
			good := false
			isExitCall := func(e ast.Expr) bool {
				call, ok := unparen(e).(*ast.CallExpr)
				if !ok {
					return false
				}
				sel, ok := call.Fun.(*ast.SelectorExpr)
				return ok && sel.Sel.Name == "ExitCode"
			}
			var held types.Object
			branches := false
			for _, st := range ifs.Body.List {
				switch x := st.(type) {
				case *ast.AssignStmt:
					if len(x.Lhs) == 1 && len(x.Rhs) == 1 && isExitCall(x.Rhs[0]) {
						if id, ok := x.Lhs[0].(*ast.Ident); ok {
							held = info.ObjectOf(id)
						}
					}
				case *ast.IfStmt, *ast.SwitchStmt, *ast.ForStmt:
					branches = true
				case *ast.ReturnStmt:
					if len(x.Results) == 1 && !branches {
						if isExitCall(x.Results[0]) {
							good = true
						} else if id, ok := unparen(x.Results[0]).(*ast.Ident); ok && held != nil && info.ObjectOf(id) == held {
							good = true
						}
					}
				}
			}
			r.Check(good, key, ifs.Pos(), "%s returns err.ExitCode() itself as soon as the error has that method: %v — a status that is filtered (only 0..255 accepted, say) turns `halt_error(256)` and `halt_error(-1)` into the generic failure status", declKey(fd), good)
			return true
		})
	}
	if n == 0 {
		r.Undecided("exitpass:census", token.NoPos, "no function of the command returning int asserts an error to an interface with ExitCode")
	}
}

// ---------------------------------------------------------------------------------------------------------------------
// R-C10-numberctor: texts become json.Number only where they are known to be JSON number texts.

func init() {
	reg(&Rule{ID: "R-C10-numberctor", Props: []string{"C10", "C12"}, Floor: 2,
		Doc: "both encoders print a json.Number verbatim, so a conversion json.Number(x) outside the JSON decoder is accepted only when the result goes straight into parseNumber, when x is the String() of a *big.Int or a strconv formatting, or at the enumerated normaliser of YAML numbers (checked by R-C10-foreignnumber); a text validated by something else (the query lexer's number grammar admits `.5`, `1.`, `+1`, `01`) is not a JSON number",
		Run: ruleNumberCtor})
	addDecided("C10", " json.Number is constructed only from texts known to be JSON numbers (R-C10-numberctor).")
}

var numberCtorReviewed = map[string]string{
	"normalizeYAMLNumbers": "the YAML normaliser: rebuilds the text from sign, integer part, fraction and exponent (R-C10-foreignnumber checks its pieces)",
}

func ruleNumberCtor(c *Ctx, r *Rep) {
	n := 0
	for _, p := range []*packages.Package{c.Gojq, c.Cli} {
		if p == nil {
			continue
		}
		info := p.TypesInfo
		for _, fd := range c.Decls(p) {
			if f := c.PhysFile(fd.Pos()); f == "parser.go" {
				continue
			}
			walkStack(fd.Body, func(m ast.Node, stack []ast.Node) bool {
				call, ok := m.(*ast.CallExpr)
				if !ok || len(call.Args) != 1 {
					return true
				}
				tv, ok := info.Types[call.Fun]
				if !ok || !tv.IsType() {
					return true
				}
				nt, ok := tv.Type.(*types.Named)
				if !ok || nt.Obj().Pkg() == nil || nt.Obj().Pkg().Path() != "encoding/json" || nt.Obj().Name() != "Number" {
					return true
				}
				arg := unparen(call.Args[0])
				if at := info.TypeOf(arg); at != nil && types.Identical(at, tv.Type) {
					return true // already a json.Number
				}
				n++
				key := "numberctor:" + declKey(fd) + ":" + c.Src(call)
				// straight into parseNumber
				if len(stack) > 0 {
					if outer, ok := stack[len(stack)-1].(*ast.CallExpr); ok && strings.HasSuffix(calleeName(info, outer), ".parseNumber") {
						r.OK(key, call.Pos(), "the conversion is the argument of parseNumber, which normalises or rejects it")
						return true
					}
				}
				if ic, ok := arg.(*ast.CallExpr); ok {
					nm := calleeName(info, ic)
					if nm == "big.Int.String" || nm == "big.Float.String" || nm == "big.Int.Text" || nm == "Int.String" || nm == "Float.String" || nm == "Int.Text" || strings.HasPrefix(nm, "strconv.Format") || strings.HasPrefix(nm, "strconv.Itoa") {
						r.OK(key, call.Pos(), "the text is produced by %s", nm)
						return true
					}
				}
				if _, ok := constString(info, arg); ok {
					r.OK(key, call.Pos(), "a constant")
					return true
				}
				if why, ok := numberCtorReviewed[declKey(fd)]; ok {
					r.OK(key, call.Pos(), "enumerated — %s", why)
					return true
				}
				r.Bad(key, call.Pos(), "%s in %s turns a text into a json.Number, which both encoders print as it is; nothing shows the text to be a JSON number (the accepted producers are the JSON decoder, parseNumber, big.Int.String, strconv, the YAML normaliser): `\".5\" | fromjson` would print .5, `\"+1\"` +1, `\"01\"` 01", c.Src(call), declKey(fd))
				return true
			})
		}
	}
	if n == 0 {
		r.Undecided("numberctor:census", token.NoPos, "no json.Number conversion found")
	}
}

// ---------------------------------------------------------------------------------------------------------------------
// R-C04-foldchecked: what the compiler computes at compile time and emits as a constant is not an error value.

func init() {
	reg(&Rule{ID: "R-C04-foldchecked", Props: []string{"C04", "C08"}, Floor: 0,
		Doc: "natives report failure by returning an error as their value; the VM tests every native's result for that. A compiler function that calls a native itself (through the callback field of the function table, or one of the func… implementations) and emits the result as the operand of a constant instruction has to make the same test first — `1 / 0` folded into a constant is an error object on the stack that try cannot catch and the encoder panics on",
		Run: ruleFoldChecked})
	addDecided("C04", " No compile-time call of a native reaches a constant operand untested for being an error (R-C04-foldchecked).")
}

func ruleFoldChecked(c *Ctx, r *Rep) {
	p := c.Gojq
	info := p.TypesInfo
	anyT := types.Universe.Lookup("any").Type()
	isNativeSig := func(t types.Type) bool {
		sig, ok := t.Underlying().(*types.Signature)
		if !ok || sig.Results().Len() != 1 || !types.Identical(sig.Results().At(0).Type(), anyT) || sig.Params().Len() == 0 {
			return false
		}
		for i := 0; i < sig.Params().Len(); i++ {
			pt := sig.Params().At(i).Type()
			if types.Identical(pt, anyT) {
				continue
			}
			if sl, ok := pt.(*types.Slice); ok && types.Identical(sl.Elem(), anyT) {
				continue
			}
			return false
		}
		return true
	}
	n := 0
	for _, fd := range c.Decls(p) {
		if fd.Recv == nil || !strings.HasPrefix(declKey(fd), "compiler.") {
			continue
		}
		ast.Inspect(fd.Body, func(m ast.Node) bool {
			call, ok := m.(*ast.CallExpr)
			if !ok {
				return true
			}
			ft := info.TypeOf(call.Fun)
			if ft == nil || !isNativeSig(ft) {
				return true
			}
			// a call of a native at compile time: dynamic (a field or variable of function type) or one of the implementations
			if f, ok := callee(info, call).(*types.Func); ok {
				if nm := objName(f); !strings.HasPrefix(nm, "gojq.func") {
					return true
				}
			}
			n++
			key := "foldchecked:" + declKey(fd) + ":" + c.Src(call)
			// where does the value go? directly into a composite literal of type code → unchecked; into a variable → the
			// variable must be type-asserted / type-switched against error before the literal
			checked := false
			var holder types.Object
			ast.Inspect(fd.Body, func(q ast.Node) bool {
				if as, ok := q.(*ast.AssignStmt); ok {
					for i, rhs := range as.Rhs {
						if unparen(rhs) == ast.Expr(call) && i < len(as.Lhs) {
							if id, ok := as.Lhs[i].(*ast.Ident); ok {
								holder = info.ObjectOf(id)
							}
						}
					}
				}
				return true
			})
			if holder != nil {
				ast.Inspect(fd.Body, func(q ast.Node) bool {
					switch x := q.(type) {
					case *ast.TypeAssertExpr:
						if id, ok := unparen(x.X).(*ast.Ident); ok && info.ObjectOf(id) == holder {
							if x.Type == nil || types.ExprString(x.Type) == "error" {
								checked = true
							}
						}
					}
					return true
				})
			}
			r.Check(checked, key, call.Pos(), "%s calls a native while compiling; its result is tested for being an error before it is used: %v — natives return their errors as values (`1 / 0`, `1 %% 0`), and a constant instruction would push the error object as data", declKey(fd), checked)
			return true
		})
	}
	if n == 0 {
		r.OK("foldchecked:none", token.NoPos, "no compiler function calls a native at compile time")
	}
}


// yamlArgMayHold: may the argument of an Encode call be a value of a kind for which is(type) holds? A static type decides
// for itself; an interface may hold anything, except that the bound variable of a type switch holds only what its clause
// admits: the listed types, or — in the default clause — whatever no other clause lists.
func yamlArgMayHold(info *types.Info, arg ast.Expr, stack []ast.Node, is func(types.Type) bool) bool {
	t := info.TypeOf(arg)
	if t == nil {
		return false
	}
	if _, isIface := t.Underlying().(*types.Interface); !isIface {
		return is(t)
	}
	may := true
	if id, ok := arg.(*ast.Ident); ok {
		for i := len(stack) - 1; i >= 0; i-- {
			cc, ok := stack[i].(*ast.CaseClause)
			if !ok || info.Implicits[cc] == nil || info.Implicits[cc] != info.Uses[id] {
				continue
			}
			lists := func(cl *ast.CaseClause) bool {
				for _, e := range cl.List {
					if tt := info.TypeOf(e); tt != nil && is(tt) {
						return true
					}
				}
				return false
			}
			if cc.List != nil {
				may = lists(cc)
			} else if i > 0 {
				if body, ok := stack[i-1].(*ast.BlockStmt); ok {
					for _, st := range body.List {
						if o, ok := st.(*ast.CaseClause); ok && o != cc && lists(o) {
							may = false
						}
					}
				}
			}
		}
	}
	return may
}

// ---------------------------------------------------------------------------------------------------------------------
// R-C11-yamlreach: no Go map and no slice is handed to the YAML encoder.

func init() {
	reg(&Rule{ID: "R-C11-yamlreach", Props: []string{"C11", "C12"}, Floor: 1,
		Doc: "no Encode call of the YAML dependency in the command can be handed a Go map (the encoder sorts its keys in a natural, number-aware order) or a slice (whose elements it would encode itself, maps and *big.Int included): containers reach the encoder only as nodes the command has built",
		Run: ruleYAMLReach})
	addDecided("C11", " Neither a Go map nor a slice can reach the YAML encoder, at any depth (R-C11-yamlreach).")
}

func ruleYAMLReach(c *Ctx, r *Rep) {
	p := c.Cli
	info := p.TypesInfo
	n := 0
	for _, fd := range c.Decls(p) {
		walkStack(fd.Body, func(m ast.Node, stack []ast.Node) bool {
			call, ok := m.(*ast.CallExpr)
			if !ok || len(call.Args) != 1 {
				return true
			}
			f, ok := callee(info, call).(*types.Func)
			if !ok || f.Name() != "Encode" || !isYAMLPkg(f.Pkg()) {
				return true
			}
			n++
			arg := unparen(call.Args[0])
			key := "yamlreach:" + declKey(fd) + ":" + c.Src(call)
			mayMap := yamlArgMayHold(info, arg, stack, func(tt types.Type) bool {
				_, ok := tt.Underlying().(*types.Map)
				return ok
			})
			maySlice := yamlArgMayHold(info, arg, stack, func(tt types.Type) bool {
				_, ok := tt.Underlying().(*types.Slice)
				return ok
			})
			r.Check(!mayMap && !maySlice, key, call.Pos(), "%s cannot be handed a Go map (%v) or a slice (%v): %v — a shortcut that encodes a small object directly (`if len(v) < 2 { return n, n.Encode(v) }`) hands everything below it to the encoder's own key order: `{\"a\":{\"10\":1,\"9\":2}}` is written with \"9\" before \"10\"", c.Src(call), !mayMap, !maySlice, !mayMap && !maySlice)
			return true
		})
	}
	if n == 0 {
		r.Undecided("yamlreach:census", token.NoPos, "no Encode call of the YAML dependency in the command")
	}
}

// ---------------------------------------------------------------------------------------------------------------------
// R-C09-identitysuffix: the two trees the grammar builds for `.[k]` and `. .[k]` are printed differently.

func init() {
	reg(&Rule{ID: "R-C09-identitysuffix", Props: []string{"C09"}, Floor: 1,
		Doc: "the grammar builds a term of type Index for '.' followed directly by a bracket suffix, and the identity term with that suffix in its list for `term '.' suffix` / `term suffix` after the term `.`; a printer that writes the identity as `.` and a bracket suffix as `[k]` prints both as `.[k]`, which parses back as the first — so Term.writeTo has to treat the identity with suffixes specially",
		Run: ruleIdentitySuffix})
	addDecided("C09", " The printer tells the identity followed by a bracket suffix from the index term (R-C09-identitysuffix; D54).")
}

func ruleIdentitySuffix(c *Ctx, r *Rep) {
	y := getYacc(c)
	if y.Err != "" {
		r.Undecided("identitysuffix:grammar", token.NoPos, "%s", y.Err)
		return
	}
	// premise: both ways of building exist
	direct, listed := 0, 0
	for _, ru := range y.Rules {
		if ru.LHS != "term" {
			continue
		}
		if len(ru.RHS) == 2 && ru.RHS[0] == "'.'" && ru.RHS[1] == "suffix" && strings.Contains(ru.Action, "TermTypeIndex") {
			direct = ru.Line
		}
		if len(ru.RHS) >= 2 && ru.RHS[0] == "term" && ru.RHS[len(ru.RHS)-1] == "suffix" && strings.Contains(ru.Action, "SuffixList") {
			// an action that looks at the identity itself normalises the tree at parse time: the other way to repair this
			if !strings.Contains(ru.Action, "TermTypeIdentity") {
				listed = ru.Line
			}
		}
	}
	if direct == 0 || listed == 0 {
		r.OK("identitysuffix:premise", token.NoPos, "the grammar does not build both shapes (direct index term: rule at line %d; suffix appended to a term: line %d)", direct, listed)
		return
	}
	fd := c.Decl(c.Gojq, "Term.writeTo")
	if fd == nil {
		r.Undecided("identitysuffix:printer", token.NoPos, "Term.writeTo not found")
		return
	}
	info := c.Gojq.TypesInfo
	// somewhere outside the switch arm that writes the identity itself, the printer looks at TermTypeIdentity together
	// with the suffix list
	distinguishes := false
	ast.Inspect(fd.Body, func(m ast.Node) bool {
		ifs, ok := m.(*ast.IfStmt)
		if !ok {
			return true
		}
		idn, sl := false, false
		ast.Inspect(ifs.Cond, func(q ast.Node) bool {
			switch x := q.(type) {
			case *ast.Ident:
				if o, ok := info.Uses[x].(*types.Const); ok && o.Name() == "TermTypeIdentity" {
					idn = true
				}
			case *ast.SelectorExpr:
				if x.Sel.Name == "SuffixList" || x.Sel.Name == "Index" {
					sl = true
				}
			}
			return true
		})
		// the loop variable of a range over the suffix list counts as looking at the list
		if idn && !sl {
			ast.Inspect(fd.Body, func(q ast.Node) bool {
				if rs, ok := q.(*ast.RangeStmt); ok && rs.Body.Pos() <= ifs.Pos() && ifs.End() <= rs.Body.End() {
					if sel, ok := unparen(rs.X).(*ast.SelectorExpr); ok && sel.Sel.Name == "SuffixList" {
						sl = true
					}
				}
				return true
			})
		}
		if idn && sl {
			distinguishes = true
		}
		return true
	})
	r.Check(distinguishes, "identitysuffix:Term.writeTo", fd.Pos(), "Term.writeTo has a branch on the identity term together with its suffixes: %v — the grammar (parser.go.y:%d) turns `.` directly followed by `[k]` into an index term and (parser.go.y:%d) `. .[k]` into the identity with a suffix; printed alike, `. .[0]` comes back from Parse(q.String()) as a different tree", distinguishes, direct, listed)
}

// ---------------------------------------------------------------------------------------------------------------------
// R-C01-altcatch: `?//` hands every error but a halt to the next alternative.

func init() {
	reg(&Rule{ID: "R-C01-altcatch", Props: []string{"C01"}, Floor: 1,
		Doc: "while an alternative of a destructuring `?//` is pending, opforkalt lets an error pass only if it is a halt: the predicate it consults returns true for *HaltError (through the tryEndError wrapper) and for no other type — a break of an outer label is an error like any other here, as in jq (`first(. as [$a] ?// $a | $a)` on [1] yields 1 and [1])",
		Run: ruleAltCatch})
	reg(&Rule{ID: "R-C05-stackwrite", Props: []string{"C05", "C01"}, Floor: 1,
		Doc: "the blocks of the VM's stacks are shared with the snapshots that pending forks hold (save/restore only move index and limit), so a block is written only by push, which takes a slot above every saved limit: no other function assigns into stack.data",
		Run: ruleStackWrite})
	reg(&Rule{ID: "R-C20-savecaller", Props: []string{"C20"}, Floor: 3,
		Doc: "stack.save raises the limit below which slots are not reused, and only popfork's restore lowers it again: save is called from pushfork and nowhere else — a save without a fork pins every frame below it for the rest of the run",
		Run: ruleSaveCaller})
	reg(&Rule{ID: "R-C20-closeexhausted", Props: []string{"C20", "C16"}, Floor: 1,
		Doc: "the input iterator that opens the file arguments closes each file in the Next call that finds it exhausted, not when the whole iterator is closed: descriptors and readers are held for one file at a time",
		Run: ruleCloseExhausted})
	reg(&Rule{ID: "R-C16-streamcopy", Props: []string{"C16", "C05"}, Floor: 3,
		Doc: "the --stream tokenizer keeps one path slice and edits it in place; every event it returns carries a copy of it, never the slice itself — events are retained by --slurp, [inputs] and `input as $x`",
		Run: ruleStreamCopy})
	reg(&Rule{ID: "R-C06-globalobj", Props: []string{"C06", "C09"}, Floor: 0,
		Doc: "no package-level variable of the library holds a pointer to, or an interface implemented by, one of the library's own struct types that has a method writing its fields (a parser, lexer, compiler, env kept for reuse): Parse, Compile and Run may be called from any number of goroutines",
		Run: ruleGlobalObj})
	addDecided("C01", " `?//` lets only a halt pass (R-C01-altcatch).")
	addDecided("C05", " Stack blocks are written by push alone (R-C05-stackwrite).")
	addDecided("C20", " stack.save is called from pushfork alone (R-C20-savecaller); file arguments are closed as they are exhausted (R-C20-closeexhausted).")
	addDecided("C16", " --stream events carry a copy of the tokenizer's path (R-C16-streamcopy).")
	addDecided("C06", " No package-level variable holds a stateful object of the library (R-C06-globalobj).")
}

func ruleAltCatch(c *Ctx, r *Rep) {
	vm := getVM(c)
	if vm.Err != "" {
		r.Undecided("vm-model", token.NoPos, "%s", vm.Err)
		return
	}
	cl := vm.ByOp["opforkalt"]
	if cl == nil {
		r.Undecided("altcatch:clause", token.NoPos, "opforkalt clause not found")
		return
	}
	info := vm.info
	errObj := vm.Vars["err"]
	n := 0
	ast.Inspect(cl.CC, func(m ast.Node) bool {
		ifs, ok := m.(*ast.IfStmt)
		if !ok || len(ifs.Body.List) != 1 {
			return true
		}
		br, ok := ifs.Body.List[0].(*ast.BranchStmt)
		if !ok || br.Tok != token.BREAK {
			return true
		}
		// `err == nil` is the no-error case
		if be, ok := unparen(ifs.Cond).(*ast.BinaryExpr); ok && be.Op == token.EQL && isNilIdent(be.Y) {
			return true
		}
		if id, ok := unparen(ifs.Cond).(*ast.Ident); ok && id.Name == "backtrack" {
			return true
		}
		n++
		key := "altcatch:" + c.Src(ifs.Cond)
		// a type assertion on err, or a predicate of the package applied to err
		var passes []string
		understood := false
		switch x := unparen(ifs.Cond).(type) {
		case *ast.CallExpr:
			if f, ok := callee(info, x).(*types.Func); ok && f.Pkg() == c.Gojq.Types && len(x.Args) == 1 {
				if id, ok := unparen(x.Args[0]).(*ast.Ident); ok && info.ObjectOf(id) == errObj {
					if d := c.Decl(c.Gojq, f.Name()); d != nil {
						understood = true
						ast.Inspect(d.Body, func(q ast.Node) bool {
							cc, ok := q.(*ast.CaseClause)
							if !ok {
								return true
							}
							retTrue := false
							for _, st := range cc.Body {
								if rs, ok := st.(*ast.ReturnStmt); ok && len(rs.Results) == 1 && types.ExprString(rs.Results[0]) == "true" {
									retTrue = true
								}
							}
							if retTrue {
								for _, e := range cc.List {
									passes = append(passes, types.ExprString(e))
								}
							}
							return true
						})
					}
				}
			}
		}
		if ifs.Init != nil {
			if ia, ok := ifs.Init.(*ast.AssignStmt); ok && len(ia.Rhs) == 1 {
				if ta, ok := unparen(ia.Rhs[0]).(*ast.TypeAssertExpr); ok && ta.Type != nil {
					understood = true
					passes = append(passes, types.ExprString(ta.Type))
				}
			}
		}
		if !understood {
			r.Undecided(key, ifs.Pos(), "opforkalt leaves with the error under `%s`, which is neither a type assertion on err nor a predicate of the package applied to err", c.Src(ifs.Cond))
			return true
		}
		good := len(passes) > 0
		for _, t := range passes {
			if t != "*HaltError" {
				good = false
			}
		}
		r.Check(good, key, ifs.Pos(), "opforkalt lets the error pass under `%s`, which holds for %v: only a halt passes: %v — if a break passes too, `first(. as [$a] ?// $a | $a)` on [1] yields 1 where jq (and the label/break reading of first) yields 1, [1]", c.Src(ifs.Cond), passes, good)
		return true
	})
	if n == 0 {
		r.Undecided("altcatch:census", token.NoPos, "opforkalt has no pass-through test")
	}
}

func ruleStackWrite(c *Ctx, r *Rep) {
	info := c.Gojq.TypesInfo
	n := 0
	for _, fd := range c.Decls(c.Gojq) {
		ast.Inspect(fd.Body, func(m ast.Node) bool {
			var lhs []ast.Expr
			switch x := m.(type) {
			case *ast.AssignStmt:
				lhs = x.Lhs
			case *ast.IncDecStmt:
				lhs = []ast.Expr{x.X}
			default:
				return true
			}
			for _, l := range lhs {
				// X.data[i] = …, X.data[i].f = …, X.data = …
				e := unparen(l)
				through := false
				for {
					switch x := e.(type) {
					case *ast.SelectorExpr:
						f, ok := selectorOn(info, x, "stack")
						if !ok {
							f, ok = selectorOn(info, x, "scopeStack")
						}
						if ok && f == "data" {
							n++
							key := "stackwrite:" + declKey(fd) + ":" + c.Src(l)
							good := declKey(fd) == "stack.push" || declKey(fd) == "scopeStack.push"
							_ = through
							r.Check(good, key, l.Pos(), "%s assigns into the blocks of a stack (`%s`); only stack.push may: %v — a pending fork's snapshot is an index into the same blocks, so overwriting the top block in place changes what an earlier fork will see (`(try error(\"x\") catch .), .` on 1 yields \"x\", \"x\")", declKey(fd), c.Src(l), good)
							return true
						}
						e = x.X
						through = true
						continue
					case *ast.IndexExpr:
						e = x.X
						through = true
						continue
					case *ast.ParenExpr:
						e = x.X
						continue
					}
					break
				}
			}
			return true
		})
	}
	if n == 0 {
		r.Undecided("stackwrite:census", token.NoPos, "no assignment into stack.data found (stack.push was expected)")
	}
}

func ruleSaveCaller(c *Ctx, r *Rep) {
	info := c.Gojq.TypesInfo
	n := 0
	for _, fd := range c.Decls(c.Gojq) {
		ast.Inspect(fd.Body, func(m ast.Node) bool {
			call, ok := m.(*ast.CallExpr)
			if !ok {
				return true
			}
			if nm := calleeName(info, call); !strings.HasSuffix(nm, "stack.save") && !strings.HasSuffix(nm, "scopeStack.save") {
				return true
			}
			n++
			good := declKey(fd) == "env.pushfork"
			r.Check(good, "savecaller:"+declKey(fd)+":"+c.Src(call), call.Pos(), "%s calls %s; only env.pushfork, whose fork restores the limit when it is popped, may: %v — a save in the closure-call branch of opscope leaks one frame per turn of a tail-recursive function that calls a function argument", declKey(fd), c.Src(call), good)
			return true
		})
	}
	if n == 0 {
		r.Undecided("savecaller:census", token.NoPos, "no call of stack.save found")
	}
}

func ruleCloseExhausted(c *Ctx, r *Rep) {
	p := c.Cli
	info := p.TypesInfo
	n := 0
	for _, fd := range c.Decls(p) {
		if fd.Name.Name != "Next" || fd.Recv == nil {
			continue
		}
		// opens files: a call of os.Open (or OpenFile) whose result is stored in a field of the receiver
		opens := false
		var field string
		ast.Inspect(fd.Body, func(m ast.Node) bool {
			if call, ok := m.(*ast.CallExpr); ok {
				if nm := calleeName(info, call); nm == "os.Open" || nm == "os.OpenFile" {
					opens = true
				}
			}
			return true
		})
		if !opens {
			continue
		}
		n++
		// a Close call inside Next on something taken from a field of the receiver that holds an io.Reader/File
		closes := false
		ast.Inspect(fd.Body, func(m ast.Node) bool {
			call, ok := m.(*ast.CallExpr)
			if !ok {
				return true
			}
			sel, ok := call.Fun.(*ast.SelectorExpr)
			if ok && sel.Sel.Name != "Close" {
				// a helper method of the same type that does the closing (one level)
				if f, isF := callee(info, call).(*types.Func); isF && f.Pkg() == p.Types {
					if sig, _ := f.Type().(*types.Signature); sig != nil && sig.Recv() != nil && typeName(sig.Recv().Type()) == strings.SplitN(declKey(fd), ".", 2)[0] {
						if d := c.Decl(p, typeName(sig.Recv().Type())+"."+f.Name()); d != nil && d != fd {
							ast.Inspect(d.Body, func(q ast.Node) bool {
								if cc, ok := q.(*ast.CallExpr); ok {
									if cs, ok := cc.Fun.(*ast.SelectorExpr); ok && cs.Sel.Name == "Close" && len(cc.Args) == 0 && d.Name.Name != "Close" {
										closes = true
									}
								}
								return true
							})
						}
					}
				}
				return true
			}
			if !ok || sel.Sel.Name != "Close" || len(call.Args) != 0 {
				return true
			}
			// receiver of Close: a field holding a reader, or a variable type-asserted from such a field in the same function
			isFileField := func(e ast.Expr) bool {
				se, ok := unparen(e).(*ast.SelectorExpr)
				if !ok {
					return false
				}
				t := info.TypeOf(se)
				if t == nil {
					return false
				}
				ts := t.String()
				if ts == "io.Reader" || ts == "*os.File" || ts == "io.ReadCloser" || ts == "io.Closer" {
					field = se.Sel.Name
					return true
				}
				return false
			}
			if isFileField(sel.X) {
				closes = true
				return true
			}
			if id, ok := unparen(sel.X).(*ast.Ident); ok {
				o := info.ObjectOf(id)
				ast.Inspect(fd.Body, func(q ast.Node) bool {
					if as, ok := q.(*ast.AssignStmt); ok && len(as.Rhs) == 1 {
						for _, l := range as.Lhs {
							if lid, ok := l.(*ast.Ident); ok && info.ObjectOf(lid) == o {
								if ta, ok := unparen(as.Rhs[0]).(*ast.TypeAssertExpr); ok && isFileField(ta.X) {
									closes = true
								}
							}
						}
					}
					return true
				})
			}
			return true
		})
		r.Check(closes, "closeexhausted:"+declKey(fd), fd.Pos(), "%s opens the file arguments and closes the file it has finished with itself (field %q): %v — closing them all in Close keeps one descriptor and one reader per file consumed so far", declKey(fd), field, closes)
	}
	if n == 0 {
		r.Undecided("closeexhausted:census", token.NoPos, "no Next method of the command opens files")
	}
}

func ruleStreamCopy(c *Ctx, r *Rep) {
	p := c.Cli
	info := p.TypesInfo
	n := 0
	for _, fd := range c.Decls(p) {
		if fd.Recv == nil || !strings.HasPrefix(declKey(fd), "jsonStream.") {
			continue
		}
		recvObj := types.Object(nil)
		if len(fd.Recv.List[0].Names) > 0 {
			recvObj = info.Defs[fd.Recv.List[0].Names[0]]
		}
		ast.Inspect(fd.Body, func(m ast.Node) bool {
			rs, ok := m.(*ast.ReturnStmt)
			if !ok {
				return true
			}
			for _, res := range rs.Results {
				cl, ok := unparen(res).(*ast.CompositeLit)
				if !ok {
					continue
				}
				if _, isSlice := info.TypeOf(cl).Underlying().(*types.Slice); !isSlice {
					continue
				}
				n++
				for _, e := range cl.Elts {
					// the element is a slice-typed field of the receiver itself (possibly resliced): shared
					x := unparen(e)
					if se, ok := x.(*ast.SliceExpr); ok {
						x = unparen(se.X)
					}
					if sel, ok := x.(*ast.SelectorExpr); ok {
						if id, ok := sel.X.(*ast.Ident); ok && recvObj != nil && info.Uses[id] == recvObj {
							if _, isSl := info.TypeOf(sel).Underlying().(*types.Slice); isSl {
								r.Bad("streamcopy:"+declKey(fd)+":"+c.Src(cl), cl.Pos(), "the event %s carries the tokenizer's own slice %s, which later tokens edit in place: `--stream -s .` on [1,2,3] yields [[[2],1],[[2],2],[[2],3],[[2]]]", c.Src(cl), c.Src(sel))
								return true
							}
						}
					}
				}
				r.OK("streamcopy:"+declKey(fd)+":"+c.Src(cl)+fmt.Sprintf("@%d", n), cl.Pos(), "no element of the event is a slice field of the tokenizer")
			}
			return true
		})
	}
	if n == 0 {
		r.Undecided("streamcopy:census", token.NoPos, "no method of jsonStream returns a slice literal")
	}
}

func ruleGlobalObj(c *Ctx, r *Rep) {
	p := c.Gojq
	info := p.TypesInfo
	// struct types of the package that have a pointer-receiver method assigning to a field of the receiver
	stateful := map[string]bool{}
	for _, fd := range c.Decls(p) {
		if fd.Recv == nil || len(fd.Recv.List) == 0 || len(fd.Recv.List[0].Names) == 0 {
			continue
		}
		if _, isPtr := fd.Recv.List[0].Type.(*ast.StarExpr); !isPtr {
			continue
		}
		recv := info.Defs[fd.Recv.List[0].Names[0]]
		writes := false
		ast.Inspect(fd.Body, func(m ast.Node) bool {
			var lhs []ast.Expr
			switch x := m.(type) {
			case *ast.AssignStmt:
				if x.Tok != token.DEFINE {
					lhs = x.Lhs
				}
			case *ast.IncDecStmt:
				lhs = []ast.Expr{x.X}
			}
			for _, l := range lhs {
				e := unparen(l)
				for {
					if ix, ok := e.(*ast.IndexExpr); ok {
						e = unparen(ix.X)
						continue
					}
					break
				}
				if sel, ok := e.(*ast.SelectorExpr); ok {
					if id, ok := unparen(sel.X).(*ast.Ident); ok && info.Uses[id] == recv {
						writes = true
					}
				}
			}
			return true
		})
		if writes {
			stateful[typeName(info.TypeOf(fd.Recv.List[0].Type))] = true
		}
	}
	n := 0
	scope := p.Types.Scope()
	for _, name := range scope.Names() {
		v, ok := scope.Lookup(name).(*types.Var)
		if !ok {
			continue
		}
		if strings.HasSuffix(c.PhysFile(v.Pos()), "_test.go") {
			continue
		}
		n++
		t := v.Type()
		bad := ""
		switch u := t.(type) {
		case *types.Pointer:
			if nt, ok := u.Elem().(*types.Named); ok && nt.Obj().Pkg() == p.Types && stateful[nt.Obj().Name()] {
				bad = "a pointer to " + nt.Obj().Name()
			}
		case *types.Named:
			if it, ok := u.Underlying().(*types.Interface); ok && u.Obj().Pkg() == p.Types {
				for tn := range stateful {
					if o, ok := scope.Lookup(tn).(*types.TypeName); ok && types.Implements(types.NewPointer(o.Type()), it) {
						bad = "the interface " + u.Obj().Name() + ", implemented by *" + tn
					}
				}
			} else if _, ok := u.Underlying().(*types.Struct); ok && u.Obj().Pkg() == p.Types && stateful[u.Obj().Name()] {
				bad = "a " + u.Obj().Name() + " value"
			}
		}
		if bad != "" {
			r.Bad("globalobj:"+name, v.Pos(), "the package-level variable %s holds %s, whose methods write its fields: an object kept for reuse across calls is shared by every goroutine that calls into the library (one parser reused by Parse: concurrent calls mix their value stacks — spurious syntax errors, wrong trees, panics)", name, bad)
		}
	}
	r.OK("globalobj:census", token.NoPos, "%d package-level variables, %d stateful struct types (%v)", n, len(stateful), sortedKeys(stateful))
}

// ---------------------------------------------------------------------------------------------------------------------
// R-C02-noidentity: what an update writes is decided from values and ownership, never from addresses.

func init() {
	reg(&Rule{ID: "R-C02-noidentity", Props: []string{"C02", "C05"}, Floor: 3,
		Doc: "addresses of containers are looked at only by the allocator (ownership), its containsSliceOf test and pathIntact: no other function of the library takes reflect's Pointer of a value or compares addresses of elements — an \"unchanged, keep the container\" shortcut in the update functions that compares addresses makes writing null beyond the end of an array a no-op (`[1] | .[3] = null` yields [1])",
		Run: ruleNoIdentity})
	addDecided("C02", " No function outside the allocator, containsSliceOf and pathIntact decides anything from the address of a container (R-C02-noidentity).")
}

func ruleNoIdentity(c *Ctx, r *Rep) {
	info := c.Gojq.TypesInfo
	n := 0
	for _, fd := range c.Decls(c.Gojq) {
		if c.PhysFile(fd.Pos()) == "parser.go" {
			continue
		}
		fn := declKey(fd)
		allowed := strings.HasPrefix(fn, "allocator.") || fn == "env.pathIntact" || fn == "containsSliceOf"
		k := 0
		ast.Inspect(fd.Body, func(m ast.Node) bool {
			switch x := m.(type) {
			case *ast.CallExpr:
				nm := calleeName(info, x)
				if nm == "reflect.Value.Pointer" || nm == "reflect.Value.UnsafePointer" || nm == "reflect.Value.UnsafeAddr" || strings.HasPrefix(nm, "unsafe.") {
					n++
					k++
					r.Check(allowed, fmt.Sprintf("noidentity:%s:%s#%d", fn, nm, k), x.Pos(), "%s takes the address of a container (%s); enumerated users of addresses: the allocator's methods, containsSliceOf, env.pathIntact: %v", fn, nm, allowed)
				}
			case *ast.BinaryExpr:
				if x.Op == token.EQL || x.Op == token.NEQ {
					isAddrOfElem := func(e ast.Expr) bool {
						u, ok := unparen(e).(*ast.UnaryExpr)
						if !ok || u.Op != token.AND {
							return false
						}
						_, ok = unparen(u.X).(*ast.IndexExpr)
						return ok
					}
					if isAddrOfElem(x.X) || isAddrOfElem(x.Y) {
						n++
						k++
						r.Check(allowed, fmt.Sprintf("noidentity:%s:&elem#%d", fn, k), x.Pos(), "%s compares the addresses of elements (`%s`): %v", fn, c.Src(x), allowed)
					}
				}
			}
			return true
		})
	}
	if n == 0 {
		r.Undecided("noidentity:census", token.NoPos, "no use of a container's address found (the allocator was expected)")
	}
}

// ---------------------------------------------------------------------------------------------------------------------
// R-C08-foreignindex: the index variable of a range over one sequence indexes another only when their lengths are tied.

func init() {
	reg(&Rule{ID: "R-C08-foreignindex", Props: []string{"C08"}, Floor: 15,
		Doc: "inside `for i := range X`, an index expression Y[i] on another slice, array or string Y is in range only if the two lengths are tied: Y was made with len(X) (make, or a conversion of X), the range bound itself is built from len(Y), Y is X resliced to the bound, or the pair is enumerated with its reason — `for i, color := range strings.Split(env, \":\") { *targets[i] = … }` with eight targets panics on the ninth field",
		Run: ruleForeignIndex})
	addDecided("C08", " The index of a range over one sequence is used on another only where their lengths are tied (R-C08-foreignindex).")
}

var foreignIndexReviewed = map[string]string{
	"funcKeys:range keys(v):w":                 "w is made with len(v) and keys(v) returns one entry per key of the map v",
	"values:range keys(v):vs":                  "vs is made with len(v) and keys(v) returns one entry per key of the map v",
	"funcTranspose:range vs.([]any):wss":       "wss has l rows, l being the maximum of the inner lengths computed by the loop above",
	"funcTranspose:range vss:wss[j]":           "every row of wss is made with k = len(vss) columns",
	"cli.runInternal:range cli.argnames:cli.argvalues": "argnames and argvalues are appended to in lockstep, one pair per --arg/--argjson/--slurpfile/--rawfile (R-C14-argpairs reads the same pairs)",
}

func ruleForeignIndex(c *Ctx, r *Rep) {
	n := 0
	for _, p := range []*packages.Package{c.Gojq, c.Cli} {
		if p == nil {
			continue
		}
		info := p.TypesInfo
		for _, fd := range c.Decls(p) {
			if c.PhysFile(fd.Pos()) == "parser.go" {
				continue
			}
			seen := map[string]int{}
			ast.Inspect(fd.Body, func(m ast.Node) bool {
				rs, ok := m.(*ast.RangeStmt)
				if !ok || rs.Key == nil {
					return true
				}
				kid, ok := rs.Key.(*ast.Ident)
				if !ok || kid.Name == "_" {
					return true
				}
				kobj := info.ObjectOf(kid)
				xt := info.TypeOf(rs.X)
				if xt == nil {
					return true
				}
				switch xt.Underlying().(type) {
				case *types.Map, *types.Chan, *types.Signature:
					return true
				}
				xs := types.ExprString(unparen(rs.X))
				ast.Inspect(rs.Body, func(q ast.Node) bool {
					ix, ok := q.(*ast.IndexExpr)
					if !ok {
						return true
					}
					id, ok := unparen(ix.Index).(*ast.Ident)
					if !ok || info.ObjectOf(id) != kobj {
						return true
					}
					yt := info.TypeOf(ix.X)
					if yt == nil {
						return true
					}
					if _, isMap := yt.Underlying().(*types.Map); isMap {
						return true
					}
					ys := types.ExprString(unparen(ix.X))
					if ys == xs {
						return true
					}
					n++
					base := fmt.Sprintf("foreignindex:%s:range %s:%s", declKey(fd), xs, c.Src(ix))
					seen[base]++
					key := base
					if seen[base] > 1 {
						key = fmt.Sprintf("%s#%d", base, seen[base])
					}
					// (1) the range bound mentions len(Y)
					if mentions(rs.X, func(e ast.Expr) bool {
						call, ok := e.(*ast.CallExpr)
						return ok && len(call.Args) == 1 && types.ExprString(call.Fun) == "len" && types.ExprString(unparen(call.Args[0])) == ys
					}) {
						r.OK(key, ix.Pos(), "the range bound %s is built from len(%s)", xs, ys)
						return true
					}
					// (2) Y is defined in this function from the length of X: make(T, len(X)…), Y := X[:…]/conversion of X, or
					//     Y := f(X) for the range over f's argument, or Y is resliced to the integer bound (Y := Z[:N], range N)
					tied := ""
					yid, _ := unparen(ix.X).(*ast.Ident)
					if yid != nil {
						yobj := info.ObjectOf(yid)
						ast.Inspect(fd.Body, func(d ast.Node) bool {
							as, ok := d.(*ast.AssignStmt)
							if !ok {
								return true
							}
							for i, l := range as.Lhs {
								lid, ok := l.(*ast.Ident)
								if !ok || info.ObjectOf(lid) != yobj {
									continue
								}
								var rhs ast.Expr
								if len(as.Rhs) == len(as.Lhs) {
									rhs = as.Rhs[i]
								} else if len(as.Rhs) == 1 {
									rhs = as.Rhs[0]
								}
								if rhs == nil {
									continue
								}
								rhs = unparen(rhs)
								if call, ok := rhs.(*ast.CallExpr); ok && types.ExprString(call.Fun) == "make" && len(call.Args) >= 2 {
									if mentions(call.Args[1], func(e ast.Expr) bool {
										lc, ok := e.(*ast.CallExpr)
										if ok && len(lc.Args) == 1 && types.ExprString(lc.Fun) == "len" && types.ExprString(unparen(lc.Args[0])) == xs {
											return true
										}
										return types.ExprString(e) == xs // range N { … } with make(T, N)
									}) && len(call.Args) == 2 {
										tied = "made with the length " + c.Src(call.Args[1])
									}
								}
								if se, ok := rhs.(*ast.SliceExpr); ok && se.High != nil && types.ExprString(se.High) == xs {
									tied = "resliced to the bound: " + c.Src(rhs)
								}
							}
							return true
						})
					}
					// (3) a guard on the index against len(Y): an earlier `if i >= len(Y) { break/return/continue }` in the loop body,
					//     or the use lies under `if i < len(Y)`
					lenY := func(e ast.Expr) bool {
						call, ok := unparen(e).(*ast.CallExpr)
						return ok && len(call.Args) == 1 && types.ExprString(call.Fun) == "len" && types.ExprString(unparen(call.Args[0])) == ys
					}
					isI := func(e ast.Expr) bool {
						id, ok := unparen(e).(*ast.Ident)
						return ok && info.ObjectOf(id) == kobj
					}
					for _, st := range rs.Body.List {
						if st.Pos() > ix.Pos() {
							break
						}
						ifs, ok := st.(*ast.IfStmt)
						if !ok {
							continue
						}
						if be, ok := unparen(ifs.Cond).(*ast.BinaryExpr); ok {
							leaves := false
							if len(ifs.Body.List) > 0 {
								switch ifs.Body.List[len(ifs.Body.List)-1].(type) {
								case *ast.BranchStmt, *ast.ReturnStmt:
									leaves = true
								}
							}
							if leaves && be.Op == token.GEQ && isI(be.X) && lenY(be.Y) && ifs.End() < ix.Pos() {
								tied = "guarded: " + c.Src(ifs.Cond) + " leaves the loop body first"
							}
							if be.Op == token.LSS && isI(be.X) && lenY(be.Y) && ifs.Body.Pos() <= ix.Pos() && ix.End() <= ifs.Body.End() {
								tied = "guarded: under " + c.Src(ifs.Cond)
							}
						}
					}
					if tied == "" {
						ast.Inspect(rs.Body, func(d ast.Node) bool {
							ifs, ok := d.(*ast.IfStmt)
							if !ok || !(ifs.Body.Pos() <= ix.Pos() && ix.End() <= ifs.Body.End()) {
								return true
							}
							for _, cj := range splitAnd(ifs.Cond) {
								if be, ok := unparen(cj).(*ast.BinaryExpr); ok && be.Op == token.LSS && isI(be.X) && lenY(be.Y) {
									tied = "guarded: under " + c.Src(ifs.Cond)
								}
							}
							return true
						})
					}
					// (4) an earlier `if len(X) != len(Y) { return … }` in the function
					if tied == "" {
						ast.Inspect(fd.Body, func(d ast.Node) bool {
							ifs, ok := d.(*ast.IfStmt)
							if !ok || ifs.End() > rs.Pos() || len(ifs.Body.List) == 0 {
								return true
							}
							if _, ret := ifs.Body.List[len(ifs.Body.List)-1].(*ast.ReturnStmt); !ret {
								return true
							}
							if be, ok := unparen(ifs.Cond).(*ast.BinaryExpr); ok && be.Op == token.NEQ {
								a, b := types.ExprString(unparen(be.X)), types.ExprString(unparen(be.Y))
								if (a == "len("+xs+")" && b == "len("+ys+")") || (b == "len("+xs+")" && a == "len("+ys+")") {
									tied = "the function has returned unless " + a + " == " + b
								}
							}
							return true
						})
					}
					if tied != "" {
						r.OK(key, ix.Pos(), "%s is %s", ys, tied)
						return true
					}
					if why, ok := foreignIndexReviewed[fmt.Sprintf("%s:range %s:%s", declKey(fd), xs, ys)]; ok {
						r.OK(key, ix.Pos(), "enumerated — %s", why)
						return true
					}
					r.Bad(key, ix.Pos(), "in %s, %s uses the index of `range %s` on %s, and nothing ties the two lengths (no make with len, the bound is not built from len(%s), not enumerated): an index-out-of-range panic for a longer %s — no try can catch it", declKey(fd), c.Src(ix), xs, ys, ys, xs)
					return true
				})
				return true
			})
		}
	}
	if n == 0 {
		r.Undecided("foreignindex:census", token.NoPos, "no foreign index found")
	}
}

// ---------------------------------------------------------------------------------------------------------------------
// R-C16-readtoeof: whole inputs are read to the end of the stream, not to a size somebody reported.

func init() {
	reg(&Rule{ID: "R-C16-readtoeof", Props: []string{"C16"}, Floor: 1,
		Doc: "the iterator behind --raw-input --slurp hands the query the whole text of its reader: it reads with io.ReadAll (or io.Copy) and neither it nor anything it calls in the command sizes the read by Stat — a file's reported size is not its length (procfs and sysfs report 0, a file may grow between Stat and read); io.ReadFull and io.ReadAtLeast, which stop at a byte count, are not used on inputs at all",
		Run: ruleReadToEOF})
	addDecided("C16", " Raw slurped input is read to end of stream, never to a reported size (R-C16-readtoeof).")
}

func ruleReadToEOF(c *Ctx, r *Rep) {
	p := c.Cli
	info := p.TypesInfo
	nWhole := 0
	for _, fd := range c.Decls(p) {
		ast.Inspect(fd.Body, func(m ast.Node) bool {
			call, ok := m.(*ast.CallExpr)
			if !ok {
				return true
			}
			nm := calleeName(info, call)
			switch nm {
			case "io.ReadFull", "io.ReadAtLeast":
				r.Bad("readtoeof:"+declKey(fd)+":"+nm, call.Pos(), "%s in %s reads a counted number of bytes from an input: a size taken from Stat is not the length of a procfs file (0) or of a file that is still growing — `gojq -Rs . /proc/version` would print \"\"", nm, declKey(fd))
			case "os.File.Stat", "os.Stat", "os.Lstat":
				// allowed where the result decides existence or kind, not a length: its Size() must not be called
				ast.Inspect(fd.Body, func(q ast.Node) bool {
					if sc, ok := q.(*ast.CallExpr); ok {
						if sn := calleeName(info, sc); sn == "fs.FileInfo.Size" || sn == "os.FileInfo.Size" || strings.HasSuffix(sn, "FileInfo.Size") {
							r.Bad("readtoeof:"+declKey(fd)+":Size", sc.Pos(), "%s takes the Size() of a file it has Stat-ed: input lengths are found by reading to end of stream", declKey(fd))
						}
					}
					return true
				})
			case "io.ReadAll":
				if fd.Name.Name == "Next" {
					nWhole++
					r.OK("readtoeof:"+declKey(fd), call.Pos(), "%s reads its reader with io.ReadAll", declKey(fd))
				}
			}
			return true
		})
	}
	if nWhole == 0 {
		r.Undecided("readtoeof:census", token.NoPos, "no Next method of the command reads its reader with io.ReadAll (the raw slurp iterator was expected)")
	}
}


// ---------------------------------------------------------------------------------------------------------------------
// R-C18-discriminator: the compiler tells `import` from `include` by a field that cannot be empty.

func init() {
	reg(&Rule{ID: "R-C18-discriminator", Props: []string{"C18", "C09"}, Floor: 0,
		Doc: "outside the printer too, a function that tells the alternatives of a syntax node apart by testing a string field for emptiness uses a field the grammar feeds from a token that cannot be empty (an identifier, a variable), not from a string literal: R-C09-discriminator's question asked of the compiler (compileImport, the module metadata listing)",
		Run: func(c *Ctx, r *Rep) { discriminatorScan(c, r, false) }})
	addDecided("C18", " The compiler tells import from include by the alias, which cannot be empty, not by the path (R-C18-discriminator; D56).")
}

// ---------------------------------------------------------------------------------------------------------------------
// R-C17-samebytes: the decoder reads the very bytes the error message is cut from.

func init() {
	reg(&Rule{ID: "R-C17-samebytes", Props: []string{"C17"}, Floor: 2,
		Doc: "a decoder's offsets are positions in what the decoder was given; where the text for an error message is fetched by seeking and re-reading a source, the decoder was constructed on that same source, not on a wrapper that drops or adds bytes in front of it (a byte-order-mark skipper, a decompressor): (1) a function that calls json.NewDecoder(R) and also S.Seek has R == S; (2) an inputReader literal with a seekable source has that source as its reader as well",
		Run: ruleSameBytes})
	reg(&Rule{ID: "R-C19-envpairs", Props: []string{"C19"}, Floor: 1,
		Doc: "`env` and `$ENV` show the environment loader's pairs as given, later pairs replacing earlier ones: in the loop over the loader's result the store into the object is not conditional on what the object already holds",
		Run: ruleEnvPairs})
	reg(&Rule{ID: "R-C18-keeppaths", Props: []string{"C18"}, Floor: 1,
		Doc: "NewModuleLoader keeps every search path it is given (resolved lexically, empty ones dropped) and does not probe the file system: LoadInitModules looks for the entry named .jq that is a regular file in the same list, and a constructor that filters for directories silently loses ~/.jq",
		Run: ruleKeepPaths})
	addDecided("C17", " The JSON decoder reads the same bytes the error text is re-read from (R-C17-samebytes).")
	addDecided("C19", " The environment loader's pairs are stored unconditionally, in order (R-C19-envpairs).")
	addDecided("C18", " NewModuleLoader keeps the search paths without probing them (R-C18-keeppaths).")
}

func ruleSameBytes(c *Ctx, r *Rep) {
	n := 0
	for _, p := range []*packages.Package{c.Gojq, c.Cli} {
		if p == nil {
			continue
		}
		info := p.TypesInfo
		for _, fd := range c.Decls(p) {
			var decArgs []ast.Expr
			var seekers []types.Object
			ast.Inspect(fd.Body, func(m ast.Node) bool {
				call, ok := m.(*ast.CallExpr)
				if !ok {
					return true
				}
				if calleeName(info, call) == "json.NewDecoder" && len(call.Args) == 1 {
					decArgs = append(decArgs, call.Args[0])
				}
				if sel, ok := call.Fun.(*ast.SelectorExpr); ok && sel.Sel.Name == "Seek" {
					if id, ok := unparen(sel.X).(*ast.Ident); ok {
						seekers = append(seekers, info.ObjectOf(id))
					}
				}
				return true
			})
			if len(decArgs) > 0 && len(seekers) > 0 {
				for _, a := range decArgs {
					n++
					id, isID := unparen(a).(*ast.Ident)
					same := false
					if isID {
						for _, s := range seekers {
							if info.ObjectOf(id) == s {
								same = true
							}
						}
					}
					r.Check(same, "samebytes:"+declKey(fd)+":json.NewDecoder("+c.Src(a)+")", a.Pos(), "%s decodes from %s and seeks a source to re-read it for the error text; they are the same object: %v — a decoder behind a reader that skipped a byte-order mark reports offsets three bytes short of the text the message is cut from", declKey(fd), c.Src(a), same)
				}
			}
			// inputReader literals
			ast.Inspect(fd.Body, func(m ast.Node) bool {
				cl, ok := m.(*ast.CompositeLit)
				if !ok {
					return true
				}
				t := info.TypeOf(cl)
				if t == nil || typeName(t) != "inputReader" {
					return true
				}
				st, ok := t.Underlying().(*types.Struct)
				if !ok {
					return true
				}
				var reader, rs ast.Expr
				for i, e := range cl.Elts {
					name := ""
					val := e
					if kv, ok := e.(*ast.KeyValueExpr); ok {
						name = kv.Key.(*ast.Ident).Name
						val = kv.Value
					} else if i < st.NumFields() {
						name = st.Field(i).Name()
					}
					switch name {
					case "Reader":
						reader = val
					case "rs":
						rs = val
					}
				}
				if rs == nil || isNilIdent(rs) {
					return true
				}
				n++
				same := reader != nil && c.Src(reader) == c.Src(rs)
				r.Check(same, "samebytes:"+declKey(fd)+":inputReader{"+c.Src(rs)+"}", cl.Pos(), "the inputReader built in %s reads from its seekable source itself (Reader %s, rs %s): %v", declKey(fd), c.Src(reader), c.Src(rs), same)
				return true
			})
		}
	}
	if n == 0 {
		r.Undecided("samebytes:census", token.NoPos, "no decoder beside a re-read source found")
	}
}

func ruleEnvPairs(c *Ctx, r *Rep) {
	info := c.Gojq.TypesInfo
	n := 0
	for _, fd := range c.Decls(c.Gojq) {
		ast.Inspect(fd.Body, func(m ast.Node) bool {
			rs, ok := m.(*ast.RangeStmt)
			if !ok {
				return true
			}
			call, ok := unparen(rs.X).(*ast.CallExpr)
			if !ok {
				return true
			}
			if f, ok := selectorOn(info, call.Fun, "compiler"); !ok || f != "environLoader" {
				return true
			}
			walkStack(rs.Body, func(q ast.Node, stack []ast.Node) bool {
				as, ok := q.(*ast.AssignStmt)
				if !ok || len(as.Lhs) != 1 {
					return true
				}
				ix, ok := unparen(as.Lhs[0]).(*ast.IndexExpr)
				if !ok {
					return true
				}
				if _, isMap := info.TypeOf(ix.X).Underlying().(*types.Map); !isMap {
					return true
				}
				n++
				dest := c.Src(ix.X)
				cond := ""
				for _, a := range stack {
					ifs, ok := a.(*ast.IfStmt)
					if !ok {
						continue
					}
					reads := func(node ast.Node) bool {
						found := false
						if node == nil {
							return false
						}
						ast.Inspect(node, func(z ast.Node) bool {
							if zi, ok := z.(*ast.IndexExpr); ok && c.Src(zi.X) == dest {
								found = true
							}
							return true
						})
						return found
					}
					if reads(ifs.Cond) || (ifs.Init != nil && reads(ifs.Init)) {
						cond = c.Src(ifs)
						if i := strings.Index(cond, "{"); i > 0 {
							cond = strings.TrimSpace(cond[:i])
						}
					}
				}
				// an earlier `if _, ok := dest[k]; ok { continue }` in the loop body
				for _, st := range rs.Body.List {
					if st.End() > as.Pos() {
						break
					}
					if ifs, ok := st.(*ast.IfStmt); ok && len(ifs.Body.List) > 0 {
						if br, ok := ifs.Body.List[len(ifs.Body.List)-1].(*ast.BranchStmt); ok && br.Tok == token.CONTINUE {
							found := false
							ast.Inspect(ifs, func(z ast.Node) bool {
								if zi, ok := z.(*ast.IndexExpr); ok && c.Src(zi.X) == dest && z.Pos() < ifs.Body.Pos() {
									found = true
								}
								return true
							})
							if found {
								cond = "an earlier `continue` that depends on " + dest
							}
						}
					}
				}
				r.Check(cond == "", "envpairs:"+declKey(fd)+":"+c.Src(as.Lhs[0]), as.Pos(), "the store %s of a loader pair does not depend on what %s already holds (%s): %v — with first-wins, a loader returning append(os.Environ(), \"A=2\") no longer overrides A", c.Src(as), dest, cond, cond == "")
				return true
			})
			return true
		})
	}
	if n == 0 {
		r.Undecided("envpairs:census", token.NoPos, "no loop over the environment loader's result stores into a map")
	}
}

func ruleKeepPaths(c *Ctx, r *Rep) {
	fd := c.Decl(c.Gojq, "NewModuleLoader")
	if fd == nil {
		r.Undecided("keeppaths:NewModuleLoader", token.NoPos, "not found")
		return
	}
	info := c.Gojq.TypesInfo
	var probes []string
	ast.Inspect(fd.Body, func(m ast.Node) bool {
		if call, ok := m.(*ast.CallExpr); ok {
			switch nm := calleeName(info, call); nm {
			case "os.Stat", "os.Lstat", "os.ReadDir", "os.Open", "os.ReadFile", "filepath.EvalSymlinks", "filepath.Glob", "filepath.WalkDir", "filepath.Walk":
				probes = append(probes, nm)
			}
		}
		return true
	})
	r.Check(len(probes) == 0, "keeppaths:NewModuleLoader", fd.Pos(), "NewModuleLoader does not probe the file system (%v): %v — which entries exist, and whether one is the file ~/.jq, is found out when a module is looked up", probes, len(probes) == 0)
}

// ---------------------------------------------------------------------------------------------------------------------
// R-C18-searchfirst: the directory named by an import's `search` metadata is tried first, whatever else is on the list.

func init() {
	reg(&Rule{ID: "R-C18-searchfirst", Props: []string{"C18"}, Floor: 1,
		Doc: "lookupModule puts the directory from the import's `search` metadata in front of the loader's paths under conditions on that directory alone (it is a string, it resolves to something non-empty), never on the contents of the list: skipping it because the list already contains it demotes it from first to wherever it stands there",
		Run: ruleSearchFirst})
	addDecided("C18", " The `search` directory of an import is prepended whatever the library path holds (R-C18-searchfirst).")
}

func ruleSearchFirst(c *Ctx, r *Rep) {
	fd := c.Decl(c.Gojq, "moduleLoader.lookupModule")
	if fd == nil {
		r.Undecided("searchfirst:lookupModule", token.NoPos, "not found")
		return
	}
	info := c.Gojq.TypesInfo
	n := 0
	walkStack(fd.Body, func(m ast.Node, stack []ast.Node) bool {
		as, ok := m.(*ast.AssignStmt)
		if !ok || len(as.Lhs) != 1 || len(as.Rhs) != 1 {
			return true
		}
		call, ok := unparen(as.Rhs[0]).(*ast.CallExpr)
		if !ok || types.ExprString(call.Fun) != "append" || len(call.Args) != 2 || !call.Ellipsis.IsValid() {
			return true
		}
		// append([]string{X}, list...): a prepend
		cl, ok := unparen(call.Args[0]).(*ast.CompositeLit)
		if !ok || len(cl.Elts) != 1 {
			return true
		}
		listID, ok := unparen(call.Args[1]).(*ast.Ident)
		if !ok {
			return true
		}
		n++
		listObj := info.ObjectOf(listID)
		dependsOnList := ""
		for _, a := range stack {
			ifs, ok := a.(*ast.IfStmt)
			if !ok {
				continue
			}
			for _, part := range []ast.Node{ifs.Init, ifs.Cond} {
				if part == nil {
					continue
				}
				ast.Inspect(part, func(q ast.Node) bool {
					if id, ok := q.(*ast.Ident); ok && info.ObjectOf(id) == listObj {
						dependsOnList = c.Src(ifs.Cond)
					}
					if sel, ok := q.(*ast.SelectorExpr); ok && sel.Sel.Name == "paths" {
						dependsOnList = c.Src(ifs.Cond)
					}
					return true
				})
			}
		}
		r.Check(dependsOnList == "", "searchfirst:"+c.Src(as), as.Pos(), "the prepend `%s` is not conditional on the list itself (%s): %v — with -L A -L B, `import \"m\" as m {search:\"B\"}` must load B/m.jq, not A/m.jq", c.Src(as), dependsOnList, dependsOnList == "")
		return true
	})
	if n == 0 {
		r.Undecided("searchfirst:census", token.NoPos, "lookupModule does not prepend a directory to its list of paths")
	}
}

// ---------------------------------------------------------------------------------------------------------------------
// R-C17-yamlbom: the YAML parser's character index does not count a byte-order mark; the command's text does.

func init() {
	reg(&Rule{ID: "R-C17-yamlbom", Props: []string{"C17"}, Floor: 1,
		Doc: "premise, read from the YAML dependency: the function that recognises a byte-order mark steps over it in the raw buffer and in the byte offset but does not advance the mark's character index, so every Index the library reports is short by one against a text that still starts with the mark. Every function of the command that converts such an index into a position in the captured text (it reads `.Index` of a value of the dependency, or is handed the result) therefore mentions the mark — U+FEFF — itself",
		Run: ruleYAMLBOM})
	addDecided("C17", " Where a YAML character index is turned into a text position, a leading byte-order mark is accounted for (R-C17-yamlbom; D57).")
}

func ruleYAMLBOM(c *Ctx, r *Rep) {
	// premise
	seen, advancesIndex := false, false
	packages.Visit(c.All, nil, func(dp *packages.Package) {
		if dp.Types == nil || !isYAMLPkg(dp.Types) {
			return
		}
		for _, f := range dp.Syntax {
			for _, d := range f.Decls {
				fd, ok := d.(*ast.FuncDecl)
				if !ok || fd.Body == nil {
					continue
				}
				mentionsBOM := false
				ast.Inspect(fd.Body, func(m ast.Node) bool {
					if id, ok := m.(*ast.Ident); ok && strings.Contains(strings.ToLower(id.Name), "bom") && strings.Contains(strings.ToLower(id.Name), "utf8") {
						mentionsBOM = true
					}
					return true
				})
				if !mentionsBOM {
					continue
				}
				seen = true
				ast.Inspect(fd.Body, func(m ast.Node) bool {
					switch x := m.(type) {
					case *ast.AssignStmt:
						for _, l := range x.Lhs {
							if sel, ok := unparen(l).(*ast.SelectorExpr); ok && sel.Sel.Name == "index" {
								advancesIndex = true
							}
						}
					case *ast.IncDecStmt:
						if sel, ok := unparen(x.X).(*ast.SelectorExpr); ok && sel.Sel.Name == "index" {
							advancesIndex = true
						}
					}
					return true
				})
			}
		}
	})
	if !seen {
		r.Undecided("yamlbom:premise", token.NoPos, "no function of the YAML dependency recognises a UTF-8 byte-order mark")
		return
	}
	if advancesIndex {
		r.OK("yamlbom:premise", token.NoPos, "the dependency counts the byte-order mark in its character index")
		return
	}
	p := c.Cli
	info := p.TypesInfo
	n := 0
	for _, fd := range c.Decls(p) {
		usesIndex := false
		ast.Inspect(fd.Body, func(m ast.Node) bool {
			sel, ok := m.(*ast.SelectorExpr)
			if !ok || sel.Sel.Name != "Index" {
				return true
			}
			if nt, ok := derefNamedType(info.TypeOf(sel.X)); ok && isYAMLPkg(nt.Obj().Pkg()) {
				usesIndex = true
			}
			return true
		})
		if !usesIndex {
			continue
		}
		n++
		hasBOM := false
		ast.Inspect(fd.Body, func(m ast.Node) bool {
			if e, ok := m.(ast.Expr); ok {
				if s, ok := constStrOrRune(info, e); ok && (s == "\ufeff" || s == "\xef\xbb\xbf") {
					hasBOM = true
				}
			}
			return true
		})
		r.Check(hasBOM, "yamlbom:"+declKey(fd), fd.Pos(), "%s turns a character index reported by the YAML dependency into a position in the captured text and accounts for a leading byte-order mark: %v — `printf '\\xef\\xbb\\xbfa: 1\\nb: x: 2\\n' | gojq --yaml-input .` puts the caret one column left of the offending `:`", declKey(fd), hasBOM)
	}
	if n == 0 {
		r.Undecided("yamlbom:census", token.NoPos, "no function of the command reads the Index of a value of the YAML dependency")
	}
}

func derefNamedType(t types.Type) (*types.Named, bool) {
	if t == nil {
		return nil, false
	}
	if p, ok := t.(*types.Pointer); ok {
		t = p.Elem()
	}
	nt, ok := t.(*types.Named)
	return nt, ok
}

// ---------------------------------------------------------------------------------------------------------------------
// R-C15-encoderparams, R-C15-haltstring

func init() {
	reg(&Rule{ID: "R-C15-encoderparams", Props: []string{"C15", "C12"}, Floor: 1,
		Doc: "the command's JSON encoder is built with the indentation its caller decided: newEncoder does not assign to its parameters — the priority among --compact-output, --tab and --indent is decided in one place (createMarshaler, R-C15-priority), and a constructor that adjusts the indent for tabs overrides the compact choice made there",
		Run: ruleEncoderParams})
	reg(&Rule{ID: "R-C15-haltstring", Props: []string{"C15"}, Floor: 1,
		Doc: "halt_error with a string writes exactly that string to standard error: on the HaltError path of the command's main loop every newline that is written lies in the branch for values that are not strings",
		Run: ruleHaltString})
	addDecided("C15", " newEncoder takes the indentation as given (R-C15-encoderparams); a string given to halt_error is written without a terminator (R-C15-haltstring).")
}

func ruleEncoderParams(c *Ctx, r *Rep) {
	p := c.Cli
	info := p.TypesInfo
	fd := c.Decl(p, "newEncoder")
	if fd == nil || fd.Type.Params == nil {
		r.Undecided("encoderparams:newEncoder", token.NoPos, "not found")
		return
	}
	params := map[types.Object]bool{}
	for _, f := range fd.Type.Params.List {
		for _, nm := range f.Names {
			params[info.Defs[nm]] = true
		}
	}
	bad := ""
	ast.Inspect(fd.Body, func(m ast.Node) bool {
		switch x := m.(type) {
		case *ast.AssignStmt:
			for _, l := range x.Lhs {
				if id, ok := unparen(l).(*ast.Ident); ok && params[info.ObjectOf(id)] && x.Tok != token.DEFINE {
					bad = c.Src(x)
				}
			}
		case *ast.IncDecStmt:
			if id, ok := unparen(x.X).(*ast.Ident); ok && params[info.ObjectOf(id)] {
				bad = c.Src(x)
			}
		}
		return true
	})
	r.Check(bad == "", "encoderparams:newEncoder", fd.Pos(), "newEncoder uses its parameters as given (reassignment: %q): %v — with `if tab { indent = 1 }` in the constructor, -c together with --tab prints tab-indented multi-line values", bad, bad == "")
}

func ruleHaltString(c *Ctx, r *Rep) {
	p := c.Cli
	info := p.TypesInfo
	n := 0
	for _, fd := range c.Decls(p) {
		ast.Inspect(fd.Body, func(m ast.Node) bool {
			outer, ok := m.(*ast.IfStmt)
			if !ok || outer.Init == nil {
				return true
			}
			// if e, ok := e.(*gojq.HaltError); ok { … }
			ia, ok := outer.Init.(*ast.AssignStmt)
			if !ok || len(ia.Rhs) != 1 {
				return true
			}
			ta, ok := unparen(ia.Rhs[0]).(*ast.TypeAssertExpr)
			if !ok || ta.Type == nil || !strings.HasSuffix(types.ExprString(ta.Type), "HaltError") {
				return true
			}
			n++
			key := "haltstring:" + declKey(fd)
			// the string branch
			var strIf *ast.IfStmt
			ast.Inspect(outer.Body, func(q ast.Node) bool {
				ifs, ok := q.(*ast.IfStmt)
				if !ok || ifs.Init == nil || strIf != nil {
					return true
				}
				if a2, ok := ifs.Init.(*ast.AssignStmt); ok && len(a2.Rhs) == 1 {
					if t2, ok := unparen(a2.Rhs[0]).(*ast.TypeAssertExpr); ok && t2.Type != nil && types.ExprString(t2.Type) == "string" {
						strIf = ifs
					}
				}
				return true
			})
			if strIf == nil {
				r.Undecided(key, outer.Pos(), "the HaltError path has no branch on the value being a string")
				return false
			}
			// every newline constant on the path lies in the else of that branch
			stray := token.NoPos
			ast.Inspect(outer.Body, func(q ast.Node) bool {
				e, ok := q.(ast.Expr)
				if !ok {
					return true
				}
				if s, ok := constStrOrRune(info, e); ok && strings.Contains(s, "\n") {
					inElse := strIf.Else != nil && strIf.Else.Pos() <= e.Pos() && e.End() <= strIf.Else.End()
					if !inElse {
						stray = e.Pos()
					}
					return false
				}
				return true
			})
			r.Check(!stray.IsValid(), key, outer.Pos(), "on the HaltError path of %s every newline written lies in the branch for non-string values (stray: %s): %v — `\"bye\" | halt_error(3)` writes exactly bye", declKey(fd), c.Pos(stray), !stray.IsValid())
			return false
		})
	}
	if n == 0 {
		r.Undecided("haltstring:census", token.NoPos, "no branch on *gojq.HaltError found in the command")
	}
}

// ---------------------------------------------------------------------------------------------------------------------
// R-C08-indentrange, R-C04-elifreach

func init() {
	reg(&Rule{ID: "R-C08-indentrange", Props: []string{"C08", "C15"}, Floor: 1,
		Doc: "the YAML encoder of the dependency panics on a negative indent, and the command hands it --indent's value unguarded where it builds the YAML marshaler: the one guard is the range check in runInternal, which therefore depends on nothing but the value — not on --compact-output or --tab, which the YAML marshaler ignores",
		Run: ruleIndentRange})
	reg(&Rule{ID: "R-C04-elifreach", Props: []string{"C04", "C01"}, Floor: 1,
		Doc: "compileIf finishes a conditional only after it has dealt with the elif chain: every return that precedes the test of len(e.Elif) hands back a compile error, nothing else — a shortcut for a constant condition that compiles Else directly forgets the elifs in between",
		Run: ruleElifReach})
	addDecided("C08", " The --indent range check depends on the value alone (R-C08-indentrange).")
	addDecided("C04", " compileIf returns nothing but errors before it reaches the elif chain (R-C04-elifreach).")
}

func ruleIndentRange(c *Ctx, r *Rep) {
	p := c.Cli
	info := p.TypesInfo
	n := 0
	for _, fd := range c.Decls(p) {
		ast.Inspect(fd.Body, func(m ast.Node) bool {
			ifs, ok := m.(*ast.IfStmt)
			if !ok || ifs.Init == nil {
				return true
			}
			ia, ok := ifs.Init.(*ast.AssignStmt)
			if !ok || len(ia.Lhs) != 1 || len(ia.Rhs) != 1 {
				return true
			}
			sel, ok := unparen(ia.Rhs[0]).(*ast.SelectorExpr)
			if !ok || !strings.EqualFold(sel.Sel.Name, "outputIndent") {
				return true
			}
			// the check: its body returns an error under comparisons of the dereferenced value with constants
			returnsErr := false
			ast.Inspect(ifs.Body, func(q ast.Node) bool {
				if rs, ok := q.(*ast.ReturnStmt); ok && len(rs.Results) == 1 {
					if t := info.TypeOf(rs.Results[0]); t != nil && types.Implements(t, errorIface()) {
						returnsErr = true
					}
				}
				return true
			})
			if !returnsErr {
				return true
			}
			n++
			iobj := info.ObjectOf(ia.Lhs[0].(*ast.Ident))
			foreign := ""
			ast.Inspect(ifs.Cond, func(q ast.Node) bool {
				switch x := q.(type) {
				case *ast.SelectorExpr:
					foreign = c.Src(x)
					return false
				case *ast.Ident:
					if o := info.ObjectOf(x); o != nil && o != iobj && x.Name != "nil" {
						if _, isVar := o.(*types.Var); isVar {
							foreign = x.Name
						}
					}
				}
				return true
			})
			r.Check(foreign == "", "indentrange:"+declKey(fd), ifs.Pos(), "the range check of --indent in %s is entered under `%s`, which depends on the value alone (other operand: %q): %v — skipped under -c or --tab, `--yaml-output -c --indent -1` reaches yaml.Encoder.SetIndent(-1), which panics", declKey(fd), c.Src(ifs.Cond), foreign, foreign == "")
			return true
		})
	}
	if n == 0 {
		r.Undecided("indentrange:census", token.NoPos, "no range check of the --indent value found")
	}
}

func ruleElifReach(c *Ctx, r *Rep) {
	fd := c.Decl(c.Gojq, "compiler.compileIf")
	if fd == nil {
		r.Undecided("elifreach:compileIf", token.NoPos, "not found")
		return
	}
	info := c.Gojq.TypesInfo
	// the statement that looks at the elif chain
	var elifPos token.Pos
	ast.Inspect(fd.Body, func(m ast.Node) bool {
		if sel, ok := m.(*ast.SelectorExpr); ok && sel.Sel.Name == "Elif" && !elifPos.IsValid() {
			elifPos = sel.Pos()
		}
		return true
	})
	if !elifPos.IsValid() {
		r.Bad("elifreach:compileIf", fd.Pos(), "compileIf never looks at e.Elif")
		return
	}
	early := token.NoPos
	ast.Inspect(fd.Body, func(m ast.Node) bool {
		if _, ok := m.(*ast.FuncLit); ok {
			return false
		}
		rs, ok := m.(*ast.ReturnStmt)
		if !ok || rs.Pos() > elifPos {
			return true
		}
		if len(rs.Results) == 1 {
			if id, ok := unparen(rs.Results[0]).(*ast.Ident); ok {
				if o := info.ObjectOf(id); o != nil && types.Implements(o.Type(), errorIface()) && id.Name != "nil" {
					return true // return err
				}
			}
		}
		early = rs.Pos()
		return true
	})
	r.Check(!early.IsValid(), "elifreach:compileIf", fd.Pos(), "every return of compileIf that precedes its look at e.Elif (%s) hands back a compile error (other return: %s): %v — `if false then 1 elif . then 2 else 3 end` must not compile to 3", c.Pos(elifPos), c.Pos(early), !early.IsValid())
}
