package main

// Rules written in the fourth session (seventh seeding round and the remarks of its sub-agents).

import (
	"go/ast"
	"go/constant"
	"go/token"
	"go/types"
	"sort"
	"strings"

	"golang.org/x/tools/go/packages"
)

// ---------------------------------------------------------------------------------------------------------------------
// R-C12-yamltab: a string that starts with a tab and has several lines does not reach the YAML encoder unquoted.
// R-C12-yamlsetstring: Node.SetString is never the last word on a scalar's style.

func init() {
	reg(&Rule{ID: "R-C12-yamltab", Props: []string{"C12"}, Floor: 1,
		Doc: "every Encode call of the YAML dependency in the command whose argument may be a Go string is preceded by a screen that gives strings starting with a tab a quoted style — premise read from the dependency: its emitter writes the indentation indicator of a literal block only when the text starts with a space or a line break, and its scanner rejects a literal block whose first line starts with a tab",
		Run: ruleYAMLTab})
	reg(&Rule{ID: "R-C12-yamlsetstring", Props: []string{"C12"}, Floor: 0,
		Doc: "a scalar node built with Node.SetString gets a quoted style before it is used: SetString tags the node !!str without looking at the text, and the encoder then writes texts such as `<<` plain, which read back as something else",
		Run: ruleYAMLSetString})
	addDecided("C12", " A string that starts with a tab and spans lines reaches the YAML encoder with a quoted style (R-C12-yamltab; D51); no scalar node is left in the style Node.SetString chose (R-C12-yamlsetstring).")
}

func isYAMLPkg(p *types.Package) bool {
	if p == nil {
		return false
	}
	pp := p.Path()
	return strings.HasSuffix(pp, "/go-yaml") || strings.HasSuffix(pp, "/yaml") || strings.Contains(pp, "yaml.v")
}

// constStrOrRune: the constant string (or rune, as a string) value of e, if it has one.
func constStrOrRune(info *types.Info, e ast.Expr) (string, bool) {
	tv, ok := info.Types[e]
	if !ok || tv.Value == nil {
		return "", false
	}
	switch tv.Value.Kind() {
	case constant.String:
		return constant.StringVal(tv.Value), true
	case constant.Int:
		if v, ok := constant.Int64Val(tv.Value); ok && v >= 0 && v < 0x110000 {
			return string(rune(v)), true
		}
	}
	return "", false
}

func ruleYAMLTab(c *Ctx, r *Rep) {
	p := c.Cli
	info := p.TypesInfo
	// premise from the dependency: the function that writes the block scalar hints decides on the first byte
	depSeen, depHandlesTab := false, false
	packages.Visit(c.All, nil, func(dp *packages.Package) {
		if dp.Types == nil || !isYAMLPkg(dp.Types) {
			return
		}
		for _, f := range dp.Syntax {
			for _, d := range f.Decls {
				fd, ok := d.(*ast.FuncDecl)
				if !ok || fd.Body == nil {
					continue
				}
				nm := strings.ToLower(strings.ReplaceAll(fd.Name.Name, "_", ""))
				if !strings.Contains(nm, "blockscalarhints") {
					continue
				}
				depSeen = true
				ast.Inspect(fd.Body, func(m ast.Node) bool {
					if call, ok := m.(*ast.CallExpr); ok {
						switch strings.ToLower(strings.ReplaceAll(types.ExprString(call.Fun), "_", "")) {
						case "istab", "isblank", "isblankz":
							depHandlesTab = true
						}
					}
					return true
				})
			}
		}
	})
	if !depSeen {
		r.Undecided("yamltab:dependency", token.NoPos, "the emitter function that writes the hints of a block scalar was not found in the YAML dependency")
		return
	}
	n := 0
	for _, fd := range c.Decls(p) {
		walkStack(fd.Body, func(m ast.Node, stack []ast.Node) bool {
			call, ok := m.(*ast.CallExpr)
			if !ok || len(call.Args) != 1 {
				return true
			}
			f, ok := callee(info, call).(*types.Func)
			if !ok || f.Name() != "Encode" || !isYAMLPkg(f.Pkg()) {
				return true
			}
			arg := unparen(call.Args[0])
			t := info.TypeOf(arg)
			if t == nil {
				return true
			}
			mayString := false
			switch u := t.Underlying().(type) {
			case *types.Basic:
				mayString = u.Info()&types.IsString != 0
				// json.Number has its own case in the encoder and holds the text of a number
				if nt, ok := t.(*types.Named); ok && nt.Obj().Pkg() != nil && nt.Obj().Pkg().Path() == "encoding/json" && nt.Obj().Name() == "Number" {
					mayString = false
				}
			case *types.Interface:
				mayString = true
				// the bound variable of a type switch clause: a string only where the clause admits it
				if id, ok := arg.(*ast.Ident); ok {
					for i := len(stack) - 1; i >= 0; i-- {
						cc, ok := stack[i].(*ast.CaseClause)
						if !ok || info.Implicits[cc] == nil || info.Implicits[cc] != info.Uses[id] {
							continue
						}
						lists := func(cl *ast.CaseClause) bool {
							for _, e := range cl.List {
								if tt := info.TypeOf(e); tt != nil {
									if b, ok := tt.Underlying().(*types.Basic); ok && b.Info()&types.IsString != 0 {
										return true
									}
								}
							}
							return false
						}
						if cc.List != nil {
							mayString = lists(cc)
						} else if i > 0 {
							if body, ok := stack[i-1].(*ast.BlockStmt); ok {
								for _, st := range body.List {
									if o, ok := st.(*ast.CaseClause); ok && o != cc && lists(o) {
										mayString = false
									}
								}
							}
						}
					}
				}
			}
			if !mayString {
				return true
			}
			n++
			key := "yamltab:" + declKey(fd) + ":" + c.Src(call)
			if depHandlesTab {
				r.OK(key, call.Pos(), "the dependency's emitter writes the indentation indicator for a text that starts with a tab itself")
				return true
			}
			// a screen before the call, in one of the enclosing statement lists
			screened, unclear := false, ""
			for i := len(stack) - 1; i >= 0; i-- {
				var list []ast.Stmt
				switch b := stack[i].(type) {
				case *ast.BlockStmt:
					list = b.List
				case *ast.CaseClause:
					list = b.Body
				default:
					continue
				}
				for _, st := range list {
					if st.End() > call.Pos() {
						break
					}
					ifs, ok := st.(*ast.IfStmt)
					if !ok {
						continue
					}
					setsQuoted := false
					ast.Inspect(ifs.Body, func(q ast.Node) bool {
						if as, ok := q.(*ast.AssignStmt); ok && len(as.Lhs) == 1 && len(as.Rhs) == 1 {
							if sel, ok := as.Lhs[0].(*ast.SelectorExpr); ok && sel.Sel.Name == "Style" && isQuotedStyle(info, as.Rhs[0]) {
								setsQuoted = true
							}
						}
						return true
					})
					if !setsQuoted || len(ifs.Body.List) == 0 {
						continue
					}
					if _, ret := ifs.Body.List[len(ifs.Body.List)-1].(*ast.ReturnStmt); !ret {
						continue
					}
					// which strings take the branch
					tab, nl, other := false, false, false
					ast.Inspect(ifs.Cond, func(q ast.Node) bool {
						if e, ok := q.(ast.Expr); ok {
							if s, ok := constString(info, e); ok {
								switch s {
								case "\t":
									tab = true
								case "\n":
									nl = true
								default:
									if _, isLit := e.(*ast.BasicLit); isLit && info.Types[e].Value.Kind() == constant.String {
										other = true
									}
								}
								return false
							}
						}
						return true
					})
					conj := splitAnd(ifs.Cond)
					switch {
					case tab && !other && len(conj) <= 2:
						// starts-with-tab, alone or together with has-a-newline
						prefix := false
						ast.Inspect(ifs.Cond, func(q ast.Node) bool {
							switch x := q.(type) {
							case *ast.CallExpr:
								if calleeName(info, x) == "strings.HasPrefix" {
									prefix = true
								}
							case *ast.IndexExpr:
								if s, ok := constStrOrRune(info, x.Index); ok && s == "\x00" {
									prefix = true
								}
							}
							return true
						})
						if prefix {
							screened = true
						} else {
							unclear = c.Src(ifs.Cond)
						}
					case nl && !tab && !other && len(conj) == 1:
						screened = true // every string of several lines is quoted
					default:
						unclear = c.Src(ifs.Cond)
					}
				}
			}
			switch {
			case screened:
				r.OK(key, call.Pos(), "a string that starts with a tab (and has several lines) is given a quoted style and returned before %s is reached", c.Src(call))
			case unclear != "":
				r.Undecided(key, call.Pos(), "a branch before %s quotes some strings, but its condition `%s` is not one of the two understood screens (starts with a tab; has several lines)", c.Src(call), unclear)
			default:
				r.Bad(key, call.Pos(), "%s may be handed a Go string, and nothing before it quotes a string that starts with a tab: the encoder writes `\"\\t\\na\"` as a literal block without an indentation indicator (its emitter gives one only after a leading space or line break), which the decoder — --yaml-input, or the re-parse inside Node.Encode — rejects with `found a tab character where an indentation space is expected`", c.Src(call))
			}
			return true
		})
	}
	if n == 0 {
		r.Undecided("yamltab:census", token.NoPos, "no Encode call of the YAML dependency in the command may be handed a string")
	}
}

// isQuotedStyle: e is (a disjunction containing) the dependency's DoubleQuotedStyle or SingleQuotedStyle.
func isQuotedStyle(info *types.Info, e ast.Expr) bool {
	found := false
	ast.Inspect(e, func(q ast.Node) bool {
		var id *ast.Ident
		switch x := q.(type) {
		case *ast.SelectorExpr:
			id = x.Sel
		case *ast.Ident:
			id = x
		}
		if id != nil {
			if o, ok := info.Uses[id].(*types.Const); ok && isYAMLPkg(o.Pkg()) && (o.Name() == "DoubleQuotedStyle" || o.Name() == "SingleQuotedStyle") {
				found = true
			}
		}
		return true
	})
	return found
}

func ruleYAMLSetString(c *Ctx, r *Rep) {
	p := c.Cli
	info := p.TypesInfo
	n := 0
	for _, fd := range c.Decls(p) {
		walkStack(fd.Body, func(m ast.Node, stack []ast.Node) bool {
			es, ok := m.(*ast.ExprStmt)
			var call *ast.CallExpr
			if ok {
				call, _ = es.X.(*ast.CallExpr)
			}
			if call == nil {
				if cx, ok := m.(*ast.CallExpr); ok {
					if f, ok := callee(info, cx).(*types.Func); ok && f.Name() == "SetString" && isYAMLPkg(f.Pkg()) {
						// a SetString that is not a statement of its own: look at its statement through the stack
						for i := len(stack) - 1; i >= 0; i-- {
							if s, ok := stack[i].(*ast.ExprStmt); ok && s.X == ast.Expr(cx) {
								return true // handled as the statement
							}
						}
						n++
						r.Undecided("yamlsetstring:"+declKey(fd)+":"+c.Src(cx), cx.Pos(), "SetString is used inside a larger statement; the style that follows cannot be read off")
					}
				}
				return true
			}
			f, ok := callee(info, call).(*types.Func)
			if !ok || f.Name() != "SetString" || !isYAMLPkg(f.Pkg()) {
				return true
			}
			n++
			sel, _ := call.Fun.(*ast.SelectorExpr)
			recv := ""
			if sel != nil {
				recv = c.Src(sel.X)
			}
			key := "yamlsetstring:" + declKey(fd) + ":" + c.Src(call)
			// the statement list holding the call
			var list []ast.Stmt
			for i := len(stack) - 1; i >= 0 && list == nil; i-- {
				switch b := stack[i].(type) {
				case *ast.BlockStmt:
					list = b.List
				case *ast.CaseClause:
					list = b.Body
				}
			}
			quoted := false
			after := false
			for _, st := range list {
				if st == ast.Stmt(es) {
					after = true
					continue
				}
				if !after {
					continue
				}
				as, ok := st.(*ast.AssignStmt)
				if ok && len(as.Lhs) == 1 && len(as.Rhs) == 1 {
					if s2, ok := as.Lhs[0].(*ast.SelectorExpr); ok && s2.Sel.Name == "Style" && c.Src(s2.X) == recv && isQuotedStyle(info, as.Rhs[0]) {
						quoted = true
					}
					continue
				}
				break // anything else (a return, a use of the node) ends the search
			}
			r.Check(quoted, key, call.Pos(), "after %s the node's style is set to a quoted one before anything else happens: %v — SetString tags the scalar !!str whatever the text; the encoder then drops the tag and writes the text plain where the text alone would not resolve to a string in its table but is still legal plain text, e.g. the key `<<`, which reads back as a merge", c.Src(call), quoted)
			return true
		})
	}
	if n == 0 {
		r.OK("yamlsetstring:none", token.NoPos, "the command builds no scalar node with Node.SetString")
	}
}

// ---------------------------------------------------------------------------------------------------------------------
// R-C17-rebase: what an input iterator discards from the captured input it counts, and what it counts reaches the message.

func init() {
	reg(&Rule{ID: "R-C17-rebase", Props: []string{"C17"}, Floor: 2,
		Doc: "an input iterator that discards the front of the captured input keeps counters beside the discard (bytes or characters, lines); each counter is read again where the iterator builds its parse error, and the field of the error value it lands in is read by that error's Error method — positions reported by the decoder are absolute, the captured text is not",
		Run: ruleC17Rebase})
	addDecided("C17", " What an input iterator discards from the captured input is counted, and every such counter reaches the error message (R-C17-rebase).")
}

func ruleC17Rebase(c *Ctx, r *Rep) {
	p := c.Cli
	info := p.TypesInfo
	n := 0
	for _, fd := range c.Decls(p) {
		if fd.Recv == nil || len(fd.Recv.List) == 0 || len(fd.Recv.List[0].Names) == 0 {
			continue
		}
		recvObj := info.Defs[fd.Recv.List[0].Names[0]]
		if recvObj == nil {
			continue
		}
		isRecvField := func(e ast.Expr) (string, bool) {
			sel, ok := unparen(e).(*ast.SelectorExpr)
			if !ok {
				return "", false
			}
			id, ok := sel.X.(*ast.Ident)
			if !ok || info.Uses[id] != recvObj {
				return "", false
			}
			if _, isVar := info.Uses[sel.Sel].(*types.Var); !isVar {
				return "", false
			}
			return sel.Sel.Name, true
		}
		// the statement lists that hold a discarding call on a *bytes.Buffer
		var blocks [][]ast.Stmt
		walkStack(fd.Body, func(m ast.Node, stack []ast.Node) bool {
			call, ok := m.(*ast.CallExpr)
			if !ok {
				return true
			}
			sel, ok := call.Fun.(*ast.SelectorExpr)
			if !ok || (sel.Sel.Name != "Next" && sel.Sel.Name != "Truncate") {
				return true
			}
			if t := info.TypeOf(sel.X); t == nil || !strings.HasSuffix(t.String(), "bytes.Buffer") {
				return true
			}
			for i := len(stack) - 1; i >= 0; i-- {
				if b, ok := stack[i].(*ast.BlockStmt); ok {
					blocks = append(blocks, b.List)
					break
				}
			}
			return true
		})
		if len(blocks) == 0 {
			continue
		}
		inBlocks := func(pos token.Pos) bool {
			for _, b := range blocks {
				if len(b) > 0 && b[0].Pos() <= pos && pos < b[len(b)-1].End() {
					return true
				}
			}
			return false
		}
		counters := map[string]token.Pos{}
		for _, b := range blocks {
			for _, st := range b {
				ast.Inspect(st, func(m ast.Node) bool {
					switch x := m.(type) {
					case *ast.AssignStmt:
						if x.Tok == token.ADD_ASSIGN || x.Tok == token.SUB_ASSIGN {
							if f, ok := isRecvField(x.Lhs[0]); ok {
								counters[f] = x.Pos()
							}
						}
					case *ast.IncDecStmt:
						if f, ok := isRecvField(x.X); ok {
							counters[f] = x.Pos()
						}
					}
					return true
				})
			}
		}
		var cnames []string
		for f := range counters {
			cnames = append(cnames, f)
		}
		sort.Strings(cnames)
		for _, f := range cnames {
			pos := counters[f]
			n++
			key := "rebase:" + declKey(fd) + ":" + f
			// read under `err != nil`, outside the discard blocks
			usedInError := false
			var errField []string // fields of an error composite literal the counter is stored in
			walkStack(fd.Body, func(m ast.Node, stack []ast.Node) bool {
				g, ok := isRecvField(exprOf(m))
				if !ok || g != f || inBlocks(m.Pos()) {
					return true
				}
				// not the left-hand side of an assignment
				if len(stack) > 0 {
					if as, ok := stack[len(stack)-1].(*ast.AssignStmt); ok {
						for _, l := range as.Lhs {
							if l == m {
								return true
							}
						}
					}
				}
				under := false
				for i := len(stack) - 1; i >= 0; i-- {
					if ifs, ok := stack[i].(*ast.IfStmt); ok {
						if be, ok := unparen(ifs.Cond).(*ast.BinaryExpr); ok && be.Op == token.NEQ {
							if t := info.TypeOf(be.X); t != nil && types.Implements(t, errorIface()) {
								under = true
							}
						}
					}
					if cl, ok := stack[i].(*ast.CompositeLit); ok {
						t := info.TypeOf(cl)
						if t != nil && (types.Implements(t, errorIface()) || types.Implements(types.NewPointer(t), errorIface())) {
							if st, ok := t.Underlying().(*types.Struct); ok {
								for k, e := range cl.Elts {
									val := e
									name := ""
									if kv, ok := e.(*ast.KeyValueExpr); ok {
										val = kv.Value
										name = kv.Key.(*ast.Ident).Name
									} else if k < st.NumFields() {
										name = st.Field(k).Name()
									}
									if val.Pos() <= m.Pos() && m.End() <= val.End() {
										errField = append(errField, typeName(t)+"."+name)
									}
								}
							}
						}
					}
				}
				if under {
					usedInError = true
				}
				return true
			})
			r.Check(usedInError, key, pos, "%s counts what it discards from the captured input in the field %s, and reads %s again where it reports a parse error: %v — the decoder's positions are absolute, the captured text starts after what was discarded", declKey(fd), f, f, usedInError)
			for _, ef := range errField {
				tn, fn, _ := strings.Cut(ef, ".")
				ed := c.Decl(p, tn+".Error")
				read := false
				if ed != nil {
					ast.Inspect(ed.Body, func(m ast.Node) bool {
						if sel, ok := m.(*ast.SelectorExpr); ok && sel.Sel.Name == fn {
							if id, ok := sel.X.(*ast.Ident); ok && ed.Recv != nil && len(ed.Recv.List[0].Names) > 0 && info.Uses[id] == info.Defs[ed.Recv.List[0].Names[0]] {
								read = true
							}
						}
						return true
					})
				}
				r.Check(read, key+"→"+ef, pos, "the counter %s is stored in %s, which %s.Error reads: %v", f, ef, tn, read)
			}
		}
	}
	if n == 0 {
		r.Undecided("rebase:census", token.NoPos, "no input iterator counts what it discards from a bytes.Buffer")
	}
}

func exprOf(n ast.Node) ast.Expr {
	if e, ok := n.(ast.Expr); ok {
		return e
	}
	return nil
}

func typeName(t types.Type) string {
	if p, ok := t.(*types.Pointer); ok {
		t = p.Elem()
	}
	if nt, ok := t.(*types.Named); ok {
		return nt.Obj().Name()
	}
	return t.String()
}

var errorIfaceV *types.Interface

func errorIface() *types.Interface {
	if errorIfaceV == nil {
		errorIfaceV = types.Universe.Lookup("error").Type().Underlying().(*types.Interface)
	}
	return errorIfaceV
}
