package main

import (
	"bufio"
	"fmt"
	"os"
	"os/exec"
	"path/filepath"
	"sort"
	"strings"
	"sync"
)

// A witness is a small seeded defect (/verif/witness/<rule>__<n>.patch) that must make <rule> report
// a named construct on a scratch copy of the *current* /repo tree. It shows the rule is armed.
// Header lines of the patch file:
//   # rule: R-C07-poll
//   # expect: <substring of rule:construct that must be reported as a violation>
//   # note: free text
type witness struct {
	Path, Rule, Expect, Note string
}

func loadWitnesses(dir string) ([]witness, error) {
	files, _ := filepath.Glob(filepath.Join(dir, "*.patch"))
	sort.Strings(files)
	var out []witness
	for _, f := range files {
		fh, err := os.Open(f)
		if err != nil {
			return nil, err
		}
		w := witness{Path: f}
		sc := bufio.NewScanner(fh)
		for sc.Scan() {
			line := sc.Text()
			if !strings.HasPrefix(line, "#") {
				break
			}
			line = strings.TrimSpace(strings.TrimPrefix(line, "#"))
			if v, ok := strings.CutPrefix(line, "rule:"); ok {
				w.Rule = strings.TrimSpace(v)
			} else if v, ok := strings.CutPrefix(line, "expect:"); ok {
				w.Expect = strings.TrimSpace(v)
			} else if v, ok := strings.CutPrefix(line, "note:"); ok {
				w.Note = strings.TrimSpace(v)
			}
		}
		fh.Close()
		if w.Rule != "" {
			out = append(out, w)
		}
	}
	return out, nil
}

func copyTree(src, dst string) error {
	cmd := exec.Command("rsync", "-a", "--exclude", ".git", src+"/", dst+"/")
	if out, err := cmd.CombinedOutput(); err != nil {
		return fmt.Errorf("rsync: %v %s", err, out)
	}
	return nil
}

func runWitnesses(prop string, rs []*Rule) ([]Ob, []map[string]any) {
	ws, err := loadWitnesses(filepath.Join(*flagVerif, "witness"))
	if err != nil {
		return []Ob{{Rule: "witness", Key: "load", Pos: "-", Status: StUndecided, Detail: err.Error()}}, nil
	}
	want := map[string]bool{}
	for _, r := range rs {
		want[r.ID] = true
	}
	var sel []witness
	for _, w := range ws {
		if want[w.Rule] {
			sel = append(sel, w)
		}
	}
	obs := make([]Ob, len(sel))
	logs := make([]map[string]any, len(sel))
	sem := make(chan struct{}, 6)
	var wg sync.WaitGroup
	for i, w := range sel {
		wg.Add(1)
		go func(i int, w witness) {
			defer wg.Done()
			sem <- struct{}{}
			defer func() { <-sem }()
			name := strings.TrimSuffix(filepath.Base(w.Path), ".patch")
			status, detail := runWitness(prop, w)
			obs[i] = Ob{Rule: w.Rule, Key: "witness:" + name, Pos: "-", Status: status, Detail: detail}
			logs[i] = map[string]any{"witness": name, "rule": w.Rule, "expect": w.Expect, "result": status, "detail": detail, "note": w.Note}
		}(i, w)
	}
	wg.Wait()
	for _, o := range obs {
		if o.Status == StInfo {
			fmt.Printf("WITNESS-SKIPPED %s: %s\n", o.Key, o.Detail)
		}
	}
	return obs, logs
}

func runWitness(prop string, w witness) (status, detail string) {
	tmp, err := os.MkdirTemp("", "verifwit-")
	if err != nil {
		return StUndecided, err.Error()
	}
	defer os.RemoveAll(tmp)
	if err := copyTree(*flagRepo, tmp); err != nil {
		return StUndecided, err.Error()
	}
	chk := exec.Command("git", "apply", "--check", w.Path)
	chk.Dir = tmp
	if out, err := chk.CombinedOutput(); err != nil {
		return StInfo, "skipped: patch no longer applies to the current tree (" + strings.TrimSpace(string(out)) + ")"
	}
	ap := exec.Command("git", "apply", w.Path)
	ap.Dir = tmp
	if out, err := ap.CombinedOutput(); err != nil {
		return StInfo, "skipped: " + strings.TrimSpace(string(out))
	}
	env := append(os.Environ(), "GOFLAGS=-mod=mod", "GOWORK=off")
	for _, args := range [][]string{{"build", "./..."}, {"vet", "./..."}} {
		cmd := exec.Command("go", args...)
		cmd.Dir = tmp
		cmd.Env = env
		if out, err := cmd.CombinedOutput(); err != nil {
			return StInfo, fmt.Sprintf("skipped: variant does not pass go %s: %s", args[0], firstLines(string(out), 3))
		}
	}
	res, err := runSub(prop, tmp, "default", w.Rule)
	if err != nil {
		return StUndecided, "analysis of the variant failed: " + err.Error()
	}
	var seen []string
	for _, o := range res.Obs {
		if o.Status == StViolation {
			seen = append(seen, fullKey(o))
			if strings.Contains(fullKey(o), w.Expect) {
				return StOK, "seeded defect reported as " + fullKey(o) + " (" + o.Pos + ")"
			}
		}
	}
	return StUndecided, fmt.Sprintf("rule is not armed: seeded defect not reported (expected %q, violations seen: %v)", w.Expect, seen)
}

func firstLines(s string, n int) string {
	lines := strings.Split(strings.TrimSpace(s), "\n")
	if len(lines) > n {
		lines = lines[:n]
	}
	return strings.Join(lines, " | ")
}
