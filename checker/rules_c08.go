package main

import (
	"fmt"
	"go/ast"
	"go/token"
	"go/types"
	"sort"
	"strings"

	"golang.org/x/tools/go/packages"
	"golang.org/x/tools/go/ssa"
)

func init() {
	regProp(&PropInfo{
		ID:    "C08",
		Title: "No query text or input can crash the library or the command",
		Decided: "a census of the ways the code can panic, each discharged structurally: every switch over opcode/TermType/Operator with a panicking (or silently dropping) default covers the constants that can reach it, Operator.getFunc covers exactly the operators the compiler routes to it (R-C08-enum, R-C01-dispatch); every panic call reachable from the API is classified (exhaustive-switch default, documented caller precondition, control-flow panic paired with recover, internal invariant discharged by another rule) (R-C08-panics); " +
			"every unchecked type assertion outside parser.go is discharged (operand written by the compiler with that type, same-function evidence, or a reviewed row with a machine-checked supporting fact) (R-C08-assert); the grammar's semantic values are typed consistently: each nonterminal has one Go type and every $k.(T) asserts it (R-C08-yacctypes); " +
			"optional-method dispatch chains over the module loader end in an error return (R-C08-dispatch); the VM's argument array is larger than any admitted arity (R-C08-argcap); lazy instruction slots are always filled (R-C01-closers); advancing an iterator after false or after an error executes no handler on a short stack (R-C07-exhaust-terminal, R-C07-errexit); os.Exit is called only in cmd/gojq and cli maps every error to a status (R-C15-status).",
		NotCovered: "slice-index panics on slices other than strings cut at constant positions, nil-map and integer-conversion panics in general (value reasoning; go build -d=ssa/check_bce lists the unproven bounds checks); stack overflow on cyclic or very deep values (module import cycles excepted: R-C08-importbound); ParseError.Offset range beyond \"every lexer step is licensed\" (R-C08-lexadvance; scanString's index arithmetic is not modelled); memory exhaustion.",
	})
	reg(&Rule{ID: "R-C08-enum", Props: []string{"C08", "C09"}, Floor: 6,
		Doc: "switches over TermType/Operator whose default panics (or that drop unlisted values) are exhaustive; Operator.getFunc covers exactly the operators routed to it",
		Run: ruleC08Enum})
	reg(&Rule{ID: "R-C08-dispatch", Props: []string{"C08", "C19"}, Floor: 3,
		Doc: "every optional-method dispatch chain over compiler.moduleLoader whose arms produce a value used afterwards ends in an else that returns an error",
		Run: ruleC08Dispatch})
	reg(&Rule{ID: "R-C08-argcap", Props: []string{"C08"}, Floor: 3,
		Doc: "len(env.args) exceeds the largest arity withFunction admits and the largest arity bit of internalFuncs",
		Run: ruleC08ArgCap})
	reg(&Rule{ID: "R-C08-panics", Props: []string{"C08"}, Floor: 12,
		Doc: "every panic call site in gojq and cli (outside generated parser code) is classified and its class is checked",
		Run: ruleC08Panics})
	reg(&Rule{ID: "R-C08-assert", Props: []string{"C08"}, Floor: 30,
		Doc: "every single-value type assertion outside parser.go is discharged",
		Run: ruleC08Assert})
	reg(&Rule{ID: "R-C08-exit", Props: []string{"C08", "C15"}, Floor: 2,
		Doc: "os.Exit is called only in cmd/gojq; recover() appears only in the reviewed control-flow pairing",
		Run: ruleC08Exit})
}

func ruleC08Enum(c *Ctx, r *Rep) {
	for _, tname := range []string{"TermType", "Operator"} {
		all := namedConsts(c.Gojq.Types, tname)
		if len(all) < 10 {
			r.Undecided("type:"+tname, token.NoPos, "type %s has only %d constants", tname, len(all))
			continue
		}
		for _, es := range enumSwitches(c, c.Gojq, tname) {
			key := es.Fn + ":switch " + tname
			if es.Fn == "Operator.getFunc" {
				continue // handled below
			}
			dropping := es.Default == "absent" && (strings.HasSuffix(es.Fn, ".writeTo") || strings.HasSuffix(es.Fn, ".String") || strings.HasSuffix(es.Fn, ".GoString"))
			if es.Default == "panics" || dropping {
				miss := missingFrom(all, es.Cases)
				r.Check(len(miss) == 0, key, es.Sw.Pos(), "switch over %s in %s (default %s) must be exhaustive; missing: %v", tname, es.Fn, es.Default, miss)
			} else {
				r.Info(key, es.Sw.Pos(), "switch over %s in %s: default=%s, %d of %d constants listed (partial by design)", tname, es.Fn, es.Default, len(es.Cases), len(all))
			}
		}
	}
	// getFunc must cover exactly what compileQuery's default branch and compileQueryUpdate let through
	allOps := namedConsts(c.Gojq.Types, "Operator")
	var getFunc, cq *EnumSwitch
	for _, es := range enumSwitches(c, c.Gojq, "Operator") {
		switch es.Fn {
		case "Operator.getFunc":
			getFunc = es
		case "compiler.compileQuery":
			cq = es
		}
	}
	if getFunc == nil || cq == nil {
		r.Undecided("Operator.getFunc", token.NoPos, "getFunc or compileQuery's operator switch not found")
		return
	}
	required := map[string]bool{}
	for _, k := range allOps {
		if !cq.Cases[k.Name()] {
			required[k.Name()] = true // reaches `default: compileCall(e.Op.getFunc(), …)`
		}
	}
	info := c.Gojq.TypesInfo
	for _, s := range cq.Sw.Body.List {
		cc := s.(*ast.CaseClause)
		callsUpdate := false
		ast.Inspect(cc, func(n ast.Node) bool {
			if call, ok := n.(*ast.CallExpr); ok && calleeName(info, call) == "gojq.compiler.compileQueryUpdate" {
				callsUpdate = true
			}
			return true
		})
		if callsUpdate {
			for _, e := range cc.List {
				if id, ok := unparen(e).(*ast.Ident); ok {
					required[id.Name] = true
				}
			}
		}
	}
	var miss []string
	for k := range required {
		if !getFunc.Cases[k] {
			miss = append(miss, k)
		}
	}
	sort.Strings(miss)
	r.Check(len(miss) == 0 && getFunc.Default == "panics", "Operator.getFunc", getFunc.Sw.Pos(),
		"getFunc (default %s) covers the %d operators that compileQuery's default branch and compileQueryUpdate route to it; missing: %v", getFunc.Default, len(required), miss)
}

// loaderAssert: `x, ok := <compiler>.moduleLoader.(interface{…})`
func isLoaderAssertInit(info *types.Info, s ast.Stmt) bool {
	as, ok := s.(*ast.AssignStmt)
	if !ok || len(as.Rhs) != 1 {
		return false
	}
	ta, ok := unparen(as.Rhs[0]).(*ast.TypeAssertExpr)
	if !ok {
		return false
	}
	f, ok := selectorOn(info, ta.X, "compiler")
	return ok && f == "moduleLoader"
}

func ruleC08Dispatch(c *Ctx, r *Rep) {
	info := c.Gojq.TypesInfo
	for _, fd := range c.Decls(c.Gojq) {
		walkStack(fd.Body, func(n ast.Node, stack []ast.Node) bool {
			ifs, ok := n.(*ast.IfStmt)
			if !ok || ifs.Init == nil || !isLoaderAssertInit(info, ifs.Init) {
				return true
			}
			// only chain heads
			if len(stack) > 0 {
				if p, ok := stack[len(stack)-1].(*ast.IfStmt); ok && p.Else == ast.Stmt(ifs) {
					return true
				}
			}
			arms := 0
			var last *ast.IfStmt
			var finalElse *ast.BlockStmt
			assigned := map[types.Object]bool{}
			for cur := ifs; cur != nil; {
				arms++
				last = cur
				ast.Inspect(cur.Body, func(m ast.Node) bool {
					if as, ok := m.(*ast.AssignStmt); ok && as.Tok == token.ASSIGN {
						for _, l := range as.Lhs {
							if id, ok := l.(*ast.Ident); ok {
								if o := info.Uses[id]; o != nil && (o.Pos() < ifs.Pos() || o.Pos() > ifs.End()) && o.Name() != "err" {
									assigned[o] = true
								}
							}
						}
					}
					return true
				})
				switch e := cur.Else.(type) {
				case *ast.IfStmt:
					cur = e
				case *ast.BlockStmt:
					finalElse = e
					cur = nil
				default:
					cur = nil
				}
			}
			_ = last
			// is any assigned variable used after the chain?
			var usedAfter []string
			for o := range assigned {
				ast.Inspect(fd.Body, func(m ast.Node) bool {
					if id, ok := m.(*ast.Ident); ok && id.Pos() > ifs.End() && info.Uses[id] == o {
						usedAfter = append(usedAfter, o.Name())
						return false
					}
					return true
				})
			}
			sort.Strings(usedAfter)
			key := declKey(fd) + ":loader-chain"
			switch {
			case len(usedAfter) == 0:
				r.OK(key, ifs.Pos(), "%d-arm optional-method chain produces no value used afterwards", arms)
			case finalElse != nil && endsInReturn(finalElse):
				r.OK(key, ifs.Pos(), "%d-arm optional-method chain ends in an else that returns (value %v is always set when used)", arms, usedAfter[:1])
			default:
				r.Bad(key, ifs.Pos(), "%d-arm optional-method chain over moduleLoader has no final else returning an error, yet %s is used afterwards: a loader implementing none of the probed methods (ModuleLoader is `any`; every method is optional) leaves it nil and the next dereference panics — inside Compile for `import \"m\" as m; .`, inside Next for `\"m\" | modulemeta`", arms, usedAfter[0])
			}
			return true
		})
	}
}

func endsInReturn(b *ast.BlockStmt) bool {
	if len(b.List) == 0 {
		return false
	}
	_, ok := b.List[len(b.List)-1].(*ast.ReturnStmt)
	return ok
}

func ruleC08ArgCap(c *Ctx, r *Rep) {
	info := c.Gojq.TypesInfo
	en, _ := c.Gojq.Types.Scope().Lookup("env").(*types.TypeName)
	if en == nil {
		r.Undecided("env", token.NoPos, "type env not found")
		return
	}
	st := en.Type().Underlying().(*types.Struct)
	var capN int64 = -1
	for i := 0; i < st.NumFields(); i++ {
		if st.Field(i).Name() == "args" {
			if a, ok := st.Field(i).Type().Underlying().(*types.Array); ok {
				capN = a.Len()
			}
		}
	}
	if capN < 0 {
		r.Undecided("env.args", token.NoPos, "env.args is not an array")
		return
	}
	// withFunction's bound: the comparison `maxarity <= K` inside the condition that panics
	fd := c.Decl(c.Gojq, "withFunction")
	var bound int64 = -1
	if fd != nil {
		var maxParam types.Object
		if fd.Type.Params != nil {
			for _, f := range fd.Type.Params.List {
				for _, n := range f.Names {
					if n.Name == "maxarity" {
						maxParam = info.Defs[n]
					}
				}
			}
		}
		ast.Inspect(fd.Body, func(n ast.Node) bool {
			ifs, ok := n.(*ast.IfStmt)
			if !ok || len(ifs.Body.List) == 0 {
				return true
			}
			if classifyDefault(info, &ast.CaseClause{Body: ifs.Body.List}) != "panics" {
				return true
			}
			ast.Inspect(ifs.Cond, func(m ast.Node) bool {
				if be, ok := m.(*ast.BinaryExpr); ok && (be.Op == token.LEQ || be.Op == token.LSS) {
					if id, ok := unparen(be.X).(*ast.Ident); ok && maxParam != nil && info.Uses[id] == maxParam {
						if v, ok := constInt(info, be.Y); ok {
							bound = v
							if be.Op == token.LSS {
								bound = v - 1
							}
						}
					}
				}
				return true
			})
			return true
		})
	}
	if bound < 0 {
		r.Undecided("withFunction", token.NoPos, "could not extract the arity bound that withFunction enforces by panicking")
	} else {
		r.Check(capN > bound, "env.args>maxarity", fd.Pos(), "len(env.args)=%d must exceed the largest custom-function arity %d (Next slices env.args[:argcnt] unchecked)", capN, bound)
	}
	// internalFuncs: highest argcountN constant
	var maxBit int64 = -1
	for _, name := range c.Gojq.Types.Scope().Names() {
		if k, ok := c.Gojq.Types.Scope().Lookup(name).(*types.Const); ok && strings.HasPrefix(name, "argcount") {
			if v, ok := constIntVal(k); ok {
				for b := int64(0); b < 62; b++ {
					if v == 1<<b && b > maxBit {
						maxBit = b
					}
				}
			}
		}
	}
	r.Check(maxBit >= 0 && capN > maxBit, "env.args>internal", token.NoPos, "len(env.args)=%d exceeds the largest native arity %d", capN, maxBit)
	// the accept() mask test uses 1<<cnt on int: arities above the word size are rejected by withFunction's bound
	r.Check(bound >= 0 && bound+1 < 63, "mask-width", token.NoPos, "arity mask 1<<(maxarity+1) fits an int for maxarity<=%d", bound)
}

func constIntVal(k *types.Const) (int64, bool) {
	v := k.Val()
	if v == nil {
		return 0, false
	}
	var x int64
	if _, err := fmt.Sscan(v.ExactString(), &x); err != nil {
		return 0, false
	}
	return x, true
}

// panic classification table: enclosing function → class and reason. Classes:
//   enum        default of a switch proved exhaustive (checked here again, locally)
//   precond     documented precondition on the caller, outside the property's input domain
//   controlflow recovered in the same package (pairing checked)
//   invariant   internal invariant discharged by the named rule
var panicTable = map[string]struct{ class, reason string }{
	"opcode.String":            {"enum", "default of an exhaustive switch over opcode (R-C01-dispatch)"},
	"env.Next":                 {"enum", "default of the exhaustive dispatch switch / of the type switch over the opcall operand (R-C01-dispatch, R-C01-operand)"},
	"compiler.compileTerm":     {"enum", "default of an exhaustive switch over TermType (R-C08-enum)"},
	"Operator.String":          {"enum", "default of an exhaustive switch over Operator (R-C08-enum)"},
	"Operator.GoString":        {"enum", "default of an exhaustive switch over Operator (R-C08-enum)"},
	"Operator.getFunc":         {"enum", "default of a switch covering every operator routed to it (R-C08-enum)"},
	"TermType.GoString":        {"enum", "default of an exhaustive switch over TermType (R-C08-enum)"},
	"lexer.scanNumber":         {"enum", "default of a switch over the four numberState constants, all listed"},
	"env.index":                {"invariant", "a variable operand names a scope on the static chain; R-C04-inline and R-C01-bc police the emission side"},
	"withFunction":             {"precond", "documented: arity bounds and iterator/non-iterator mixing panic at option construction time, before any query or input is seen"},
	"TypeOf":                   {"precond", "documented: values outside the supported Go types are outside the property's input domain"},
	"encoder.encode":           {"precond", "values outside the supported Go types are outside the property's input domain"},
	"limitedWriter.Write":      {"controlflow", "panic(struct{}{}) unwinds the encoder when the preview buffer is full; recovered in jsonLimitedMarshal"},
	"limitedWriter.WriteByte":  {"controlflow", "same"},
	"limitedWriter.WriteString": {"controlflow", "same"},
	"compiler.debugCodes":      {"precond", "gojq_debug build only"},
	"env.debugCodes":           {"precond", "gojq_debug build only"},
}

func ruleC08Panics(c *Ctx, r *Rep) {
	for _, p := range []*packages.Package{c.Gojq, c.Cli, c.Cmd} {
		info := p.TypesInfo
		for _, fd := range c.Decls(p) {
			if c.PhysFile(fd.Pos()) == "parser.go" {
				continue
			}
			walkStack(fd.Body, func(n ast.Node, stack []ast.Node) bool {
				call, ok := n.(*ast.CallExpr)
				if !ok {
					return true
				}
				id, ok := call.Fun.(*ast.Ident)
				if !ok || id.Name != "panic" || info.Uses[id] != types.Universe.Lookup("panic") {
					return true
				}
				fn := declKey(fd)
				key := "panic@" + fn
				row, ok := panicTable[fn]
				if !ok && c.Cfg.Tags == "gojq_debug" && c.PhysFile(fd.Pos()) == "debug.go" {
					row, ok = panicTable["env.debugCodes"]
				}
				if !ok {
					r.Bad(key, call.Pos(), "unclassified panic(%s) in %s: a panic reachable from Parse/Compile/Run/Next/Marshal/cli.Run must be an exhaustive-switch default, a documented caller precondition, a recovered control-flow panic, or an invariant discharged by a rule", c.Src(call.Args[0]), fn)
					return true
				}
				switch row.class {
				case "enum":
					// must be the last statement of a default clause (value switch or type switch)
					inDefault := false
					for i := len(stack) - 1; i >= 0; i-- {
						if cc, ok := stack[i].(*ast.CaseClause); ok {
							inDefault = cc.List == nil
							break
						}
					}
					r.Check(inDefault, key, call.Pos(), "panic in %s is the default of a switch: %v — %s", fn, inDefault, row.reason)
				case "controlflow":
					// pairing: a function in the same package calls recover() in a deferred closure
					rec := false
					for _, g := range c.Decls(p) {
						ast.Inspect(g.Body, func(m ast.Node) bool {
							if d, ok := m.(*ast.DeferStmt); ok {
								ast.Inspect(d, func(k ast.Node) bool {
									if cl, ok := k.(*ast.CallExpr); ok {
										if f, ok := cl.Fun.(*ast.Ident); ok && f.Name == "recover" && declKey(g) == "jsonLimitedMarshal" {
											rec = true
										}
									}
									return true
								})
							}
							return true
						})
					}
					// and limitedWriter values are constructed only inside jsonLimitedMarshal
					onlyThere := true
					for _, g := range c.Decls(p) {
						ast.Inspect(g.Body, func(m ast.Node) bool {
							if cl, ok := m.(*ast.CompositeLit); ok && isNamed(info.TypeOf(cl), pathGojq, "limitedWriter") && declKey(g) != "jsonLimitedMarshal" {
								onlyThere = false
							}
							return true
						})
					}
					r.Check(rec && onlyThere, key, call.Pos(), "control-flow panic in %s: recover() in jsonLimitedMarshal=%v, limitedWriter constructed only there=%v", fn, rec, onlyThere)
				default:
					r.OK(key, call.Pos(), "%s: %s", row.class, row.reason)
				}
				return true
			})
		}
	}
}

// reviewed unchecked assertions: function → canonical assertion text → reason (and optional supporting check name)
type assertRow struct{ reason, check string }

var assertTable = map[string]assertRow{
	"Compare:lk.([]any)":                       {"funcKeys(l) on a map[string]any returns []any", "funcKeys"},
	"Compare:k.(string)":                       {"elements of funcKeys' result on a map are its string keys", "funcKeys"},
	"env.Next:env.values[i].([]any)":           {"opappend's register is initialised from an empty []any literal and only ever re-stored with append's result (R-C05-appendfresh)", ""},
	"env.Next:args[0].([]any)":                 {"in the getpath arm, reached only after the native returned a non-error: funcGetpath rejects a non-array path before any other return", "getpath"},
	"env.Next:env.pop().([2]int)":              {"opcallpc pops the closure pushed by oppushpc or loaded from a closure parameter slot; closures are [2]int{pc, scopeindex}", "pushpc"},
	"env.Next:xs[i].path.(string)":             {"xs was filled in the same arm from the keys of a map[string]any", ""},
	"env.Next:xs[j].path.(string)":             {"same", ""},
	"env.Next:env.paths.pop().(int)":           {"oppathend pops the saved expdepth that oppathbegin pushed below the root pathValue; poppaths stops at the root", "pathspush"},
	"env.pathIntact:env.paths.top().(pathValue)": {"every push onto env.paths is a pathValue except the saved depth, which is never on top while tracking", "pathspush"},
	"env.poppaths:env.paths.pop().(pathValue)":  {"same", "pathspush"},
	"funcGroupBy:rs[len(rs)-1].([]any)":        {"rs is fresh and only []any values are appended to it (ownership engine O4)", ""},
	"funcSetpathWithAllocator:args[2].(allocator)": {"not registered in internalFuncs; called only from the hand-assembled _assign/_modify lists, which pass the value produced by funcAllocator (R-C02-bc)", "allocnative"},
	"funcDelpathsWithAllocator:args[1].(allocator)": {"same", "allocnative"},
	"funcTranspose:vs.([]any)":                 {"an earlier loop over the same slice returned an error unless every element is []any", "rangechecked"},
	"compileRegexp:r.(*regexp.Regexp)":         {"the cache only ever stores *regexp.Regexp", "syncmapstore"},
	"cli.runInternal:v.(string)":               {"opts.JSONArgs elements are nil or string (flag parser fills them from argv)", ""},
	"slurpRawInputIter.Next:v.(string)":        {"the wrapped rawInputIter yields only strings and errors; an error is returned by a dominating `v.(error)` test", "errorfirst"},
	"jsonStream.next:s.path[len(s.path)-1].(int)": {"in state ArrayValue the last path element is the int index pushed on '['", ""},
}

func ruleC08Assert(c *Ctx, r *Rep) {
	supporting := map[string]string{} // check name → "" ok / reason failed
	runCheck := func(name string) string {
		if v, ok := supporting[name]; ok {
			return v
		}
		var res string
		switch name {
		case "funcKeys":
			res = checkFuncKeys(c)
		case "getpath":
			res = checkGetpathContract(c)
		case "pathspush":
			res = checkPathsPush(c)
		case "syncmapstore":
			res = checkSyncMapStore(c)
		case "allocnative":
			res = checkAllocNatives(c)
		case "pushpc":
			res = checkPushPC(c)
		}
		supporting[name] = res
		return res
	}
	seenRows := map[string]bool{}
	for _, p := range []*packages.Package{c.Gojq, c.Cli, c.Cmd} {
		info := p.TypesInfo
		for _, fd := range c.Decls(p) {
			if c.PhysFile(fd.Pos()) == "parser.go" {
				continue
			}
			walkStack(fd.Body, func(n ast.Node, stack []ast.Node) bool {
				ta, ok := n.(*ast.TypeAssertExpr)
				if !ok || ta.Type == nil || len(stack) == 0 {
					return true
				}
				switch par := stack[len(stack)-1].(type) {
				case *ast.AssignStmt:
					if len(par.Lhs) == 2 && len(par.Rhs) == 1 {
						return true
					}
				case *ast.ValueSpec:
					if len(par.Names) == 2 {
						return true
					}
				}
				fn := declKey(fd)
				if p == c.Cli && !strings.Contains(fn, ".") {
					fn = "cli." + fn
				}
				text := c.Src(ta)
				key := fn + ":" + text
				// class A: operand of an instruction
				if sel, ok := unparen(ta.X).(*ast.SelectorExpr); ok && sel.Sel.Name == "v" && isNamed(info.TypeOf(sel.X), pathGojq, "code") {
					r.OK(key, ta.Pos(), "operand of an instruction: the writer side is checked by R-C01-operand / R-C04-fold")
					return true
				}
				// class B: element of the [3]any native-call triple
				if ix, ok := unparen(ta.X).(*ast.IndexExpr); ok {
					if a, ok := info.TypeOf(ix.X).Underlying().(*types.Array); ok && a.Len() == 3 && isEmptyIface(a.Elem()) {
						r.OK(key, ta.Pos(), "element of the [3]any native-call operand: every construction is checked by R-C01-calltriple")
						return true
					}
				}
				row, ok := assertTable[key]
				if !ok {
					// user data?
					r.Bad(key, ta.Pos(), "unchecked type assertion %s in %s is not discharged: if its operand can carry user data of another dynamic type this is a run-time panic (natives receive every JSON type)", text, fn)
					return true
				}
				seenRows[key] = true
				if row.check == "rangechecked" {
					if why := checkRangeChecked(c, info, fd, ta); why != "" {
						r.Bad(key, ta.Pos(), "reviewed assertion %s relies on: %s — but the supporting fact no longer holds: %s", text, row.reason, why)
						return true
					}
					r.OK(key, ta.Pos(), "reviewed, supporting fact `rangechecked` re-checked: %s", row.reason)
					return true
				}
				if row.check == "errorfirst" {
					if why := checkErrorFirst(c, info, fd, ta); why != "" {
						r.Bad(key, ta.Pos(), "reviewed assertion %s relies on: %s — but the supporting fact no longer holds: %s (an unreadable file under -R -s would panic with an interface conversion instead of exiting 5)", text, row.reason, why)
						return true
					}
					r.OK(key, ta.Pos(), "reviewed, supporting fact `errorfirst` re-checked: %s", row.reason)
					return true
				}
				if row.check != "" {
					if why := runCheck(row.check); why != "" {
						r.Bad(key, ta.Pos(), "reviewed assertion %s relies on: %s — but the supporting fact no longer holds: %s", text, row.reason, why)
						return true
					}
					r.OK(key, ta.Pos(), "reviewed, supporting fact `%s` re-checked: %s", row.check, row.reason)
				} else {
					r.OK(key, ta.Pos(), "reviewed: %s", row.reason)
				}
				return true
			})
		}
	}
	for k := range assertTable {
		if !seenRows[k] {
			r.Info("stale:"+k, token.NoPos, "reviewed row no longer matches any assertion")
		}
	}
}

// checkRangeChecked: the operand of X.(T) is the element variable of `range S`, and an earlier `range S` over the same slice
// object asserts its element to T in comma-ok form and returns when the assertion fails.
func checkRangeChecked(c *Ctx, info *types.Info, fd *ast.FuncDecl, ta *ast.TypeAssertExpr) string {
	xid, ok := unparen(ta.X).(*ast.Ident)
	if !ok {
		return "the operand is not a variable"
	}
	obj := info.ObjectOf(xid)
	want := types.TypeString(info.TypeOf(ta.Type), nil)
	// the range statement that binds the operand
	var mine *ast.RangeStmt
	ast.Inspect(fd.Body, func(q ast.Node) bool {
		if rs, ok := q.(*ast.RangeStmt); ok && rs.Value != nil {
			if id, ok := rs.Value.(*ast.Ident); ok && info.ObjectOf(id) == obj {
				mine = rs
			}
		}
		return true
	})
	if mine == nil {
		return "the operand is not the element variable of a range statement"
	}
	sid, ok := unparen(mine.X).(*ast.Ident)
	if !ok {
		return "the ranged expression is not a variable"
	}
	sobj := info.ObjectOf(sid)
	found := false
	ast.Inspect(fd.Body, func(q ast.Node) bool {
		rs, ok := q.(*ast.RangeStmt)
		if !ok || rs == mine || rs.End() > mine.Pos() || rs.Value == nil {
			return true
		}
		xs, ok := unparen(rs.X).(*ast.Ident)
		if !ok || info.ObjectOf(xs) != sobj {
			return true
		}
		vid, ok := rs.Value.(*ast.Ident)
		if !ok {
			return true
		}
		vobj := info.ObjectOf(vid)
		// v2, ok := v.(T); if !ok { return … }
		for i, st := range rs.Body.List {
			as, ok := st.(*ast.AssignStmt)
			if !ok || len(as.Lhs) != 2 || len(as.Rhs) != 1 {
				continue
			}
			t2, ok := unparen(as.Rhs[0]).(*ast.TypeAssertExpr)
			if !ok || t2.Type == nil || types.TypeString(info.TypeOf(t2.Type), nil) != want {
				continue
			}
			if id2, ok := unparen(t2.X).(*ast.Ident); !ok || info.ObjectOf(id2) != vobj {
				continue
			}
			if i+1 < len(rs.Body.List) {
				if ifs, ok := rs.Body.List[i+1].(*ast.IfStmt); ok && strings.HasPrefix(c.Src(ifs.Cond), "!") && endsInReturn(ifs.Body) {
					found = true
				}
			}
		}
		return true
	})
	if !found {
		return "no earlier loop over " + sid.Name + " asserts its elements to " + want + " and returns on failure"
	}
	return ""
}

// checkErrorFirst: the operand X of the unchecked assertion X.(T) was tested with `X.(error)` by an earlier statement of an
// enclosing statement list whose body leaves the function.
func checkErrorFirst(c *Ctx, info *types.Info, fd *ast.FuncDecl, ta *ast.TypeAssertExpr) string {
	xid, ok := unparen(ta.X).(*ast.Ident)
	if !ok {
		return "the operand is not a variable"
	}
	obj := info.ObjectOf(xid)
	found := false
	walkStack(fd.Body, func(n ast.Node, stack []ast.Node) bool {
		if n != ast.Node(ta) {
			return true
		}
		for i := len(stack) - 1; i >= 0 && !found; i-- {
			var list []ast.Stmt
			switch b := stack[i].(type) {
			case *ast.BlockStmt:
				list = b.List
			case *ast.CaseClause:
				list = b.Body
			default:
				continue
			}
			for _, st := range list {
				if st.End() > ta.Pos() {
					break
				}
				ifs, ok := st.(*ast.IfStmt)
				if !ok || !endsInReturn(ifs.Body) {
					continue
				}
				ast.Inspect(ifs, func(q ast.Node) bool {
					if q == ast.Node(ifs.Body) {
						return false
					}
					if t2, ok := q.(*ast.TypeAssertExpr); ok && t2.Type != nil {
						if id2, ok := unparen(t2.X).(*ast.Ident); ok && info.ObjectOf(id2) == obj && types.TypeString(info.TypeOf(t2.Type), nil) == "error" {
							found = true
						}
					}
					return true
				})
			}
		}
		return false
	})
	if !found {
		return "no dominating `" + xid.Name + ".(error)` test that leaves the function precedes the assertion"
	}
	return ""
}

func checkFuncKeys(c *Ctx) string {
	fd := c.Decl(c.Gojq, "funcKeys")
	if fd == nil {
		return "funcKeys not found"
	}
	info := c.Gojq.TypesInfo
	// in the map arm: returns a []any whose elements are assigned from a range over keys(v) ([]string)
	ok := false
	ast.Inspect(fd.Body, func(n ast.Node) bool {
		cc, isCC := n.(*ast.CaseClause)
		if !isCC || len(cc.List) != 1 {
			return true
		}
		if _, isMap := info.TypeOf(cc.List[0]).Underlying().(*types.Map); !isMap {
			return true
		}
		ast.Inspect(cc, func(m ast.Node) bool {
			if rs, isR := m.(*ast.RangeStmt); isR {
				if call, isCall := unparen(rs.X).(*ast.CallExpr); isCall && calleeName(info, call) == "gojq.keys" {
					for _, s := range rs.Body.List {
						if as, isAs := s.(*ast.AssignStmt); isAs && len(as.Rhs) == 1 {
							if id, isID := as.Rhs[0].(*ast.Ident); isID && rs.Value != nil && info.ObjectOf(id) == info.ObjectOf(rs.Value.(*ast.Ident)) {
								ok = true
							}
						}
					}
				}
			}
			return true
		})
		return true
	})
	if !ok {
		return "funcKeys' map arm no longer fills its result from keys(v)"
	}
	return ""
}

// checkGetpathContract: funcGetpath's first statements reject a non-array path before any other return.
func checkGetpathContract(c *Ctx) string {
	fd := c.Decl(c.Gojq, "funcGetpath")
	if fd == nil {
		return "funcGetpath not found"
	}
	info := c.Gojq.TypesInfo
	if len(fd.Body.List) < 2 || fd.Type.Params == nil {
		return "unexpected shape"
	}
	// second parameter
	var params []types.Object
	for _, f := range fd.Type.Params.List {
		for _, n := range f.Names {
			params = append(params, info.Defs[n])
		}
	}
	if len(params) < 2 {
		return "unexpected signature"
	}
	as, ok := fd.Body.List[0].(*ast.AssignStmt)
	if !ok || len(as.Lhs) != 2 || len(as.Rhs) != 1 {
		return "the first statement is not `path, ok := p.([]any)`: a return before the path check lets a non-array path through to the VM's args[0].([]any)"
	}
	ta, ok := as.Rhs[0].(*ast.TypeAssertExpr)
	if !ok {
		return "the first statement does not assert the path parameter"
	}
	id, ok := unparen(ta.X).(*ast.Ident)
	if !ok || info.Uses[id] != params[1] || !isJSONContainer(info.TypeOf(ta.Type)) {
		return "the first statement does not assert the path parameter to []any"
	}
	ifs, ok := fd.Body.List[1].(*ast.IfStmt)
	if !ok {
		return "the path check is not followed by `if !ok { return error }`"
	}
	u, ok := ifs.Cond.(*ast.UnaryExpr)
	if !ok || u.Op != token.NOT || len(ifs.Body.List) != 1 {
		return "the path check is not followed by `if !ok { return error }`"
	}
	ret, ok := ifs.Body.List[0].(*ast.ReturnStmt)
	if !ok || len(ret.Results) != 1 {
		return "the !ok branch does not return"
	}
	errT := types.Universe.Lookup("error").Type().Underlying().(*types.Interface)
	if t := info.TypeOf(ret.Results[0]); t == nil || !types.Implements(t, errT) {
		return "the !ok branch does not return an error value"
	}
	return ""
}

// checkPathsPush: every push onto env.paths has static type pathValue or int.
func checkPathsPush(c *Ctx) string {
	info := c.Gojq.TypesInfo
	bad := ""
	n := 0
	for _, fd := range c.Decls(c.Gojq) {
		ast.Inspect(fd.Body, func(m ast.Node) bool {
			call, ok := m.(*ast.CallExpr)
			if !ok || len(call.Args) != 1 {
				return true
			}
			sel, ok := call.Fun.(*ast.SelectorExpr)
			if !ok || sel.Sel.Name != "push" || !isEnvField(info, sel.X, "paths") {
				return true
			}
			n++
			t := info.TypeOf(call.Args[0])
			if !isNamed(t, pathGojq, "pathValue") {
				if b, ok := t.Underlying().(*types.Basic); !ok || b.Kind() != types.Int {
					bad = fmt.Sprintf("env.paths.push(%s) of type %s at %s", c.Src(call.Args[0]), t, c.Pos(call.Pos()))
				}
			}
			return true
		})
	}
	if n < 5 {
		return fmt.Sprintf("only %d pushes onto env.paths found", n)
	}
	return bad
}

func checkSyncMapStore(c *Ctx) string {
	info := c.Gojq.TypesInfo
	n := 0
	bad := ""
	for _, fd := range c.Decls(c.Gojq) {
		ast.Inspect(fd.Body, func(m ast.Node) bool {
			call, ok := m.(*ast.CallExpr)
			if !ok {
				return true
			}
			name := calleeName(info, call)
			if name == "sync.Map.Store" || name == "sync.Map.LoadOrStore" || name == "sync.Map.Swap" {
				n++
				if t := info.TypeOf(call.Args[1]); t == nil || t.String() != "*regexp.Regexp" {
					bad = fmt.Sprintf("%s stores a %s at %s", name, t, c.Pos(call.Pos()))
				}
			}
			return true
		})
	}
	if n == 0 {
		return "no Store on the cache found"
	}
	return bad
}

// checkAllocNatives: the *WithAllocator natives are referenced only inside compileAssign/compileModify and not registered in internalFuncs.
func checkAllocNatives(c *Ctx) string {
	info := c.Gojq.TypesInfo
	for _, fd := range c.Decls(c.Gojq) {
		bad := ""
		ast.Inspect(fd.Body, func(m ast.Node) bool {
			if id, ok := m.(*ast.Ident); ok {
				if f, ok := info.Uses[id].(*types.Func); ok && (f.Name() == "funcSetpathWithAllocator" || f.Name() == "funcDelpathsWithAllocator") {
					k := declKey(fd)
					if k != "compiler.compileAssign" && k != "compiler.compileModify" {
						bad = f.Name() + " referenced in " + k
					}
				}
			}
			return true
		})
		if bad != "" {
			return bad
		}
	}
	return ""
}

// checkPushPC: oppushpc pushes a [2]int, and closure parameter slots are only stored from the stack (opstore) — the
// only producers of callable values are oppushpc's clause.
func checkPushPC(c *Ctx) string {
	vm := getVM(c)
	if vm.Err != "" {
		return vm.Err
	}
	cl := vm.ByOp["oppushpc"]
	if cl == nil {
		return "no clause for oppushpc"
	}
	ok := false
	ast.Inspect(cl.CC, func(m ast.Node) bool {
		if call, isCall := m.(*ast.CallExpr); isCall && vm.envMethod(call) == "push" && len(call.Args) == 1 {
			if t := vm.info.TypeOf(call.Args[0]); t != nil && t.String() == "[2]int" {
				ok = true
			}
		}
		return true
	})
	if !ok {
		return "oppushpc no longer pushes a [2]int"
	}
	return ""
}

func ruleC08Exit(c *Ctx, r *Rep) {
	nExit := 0
	for _, p := range []*packages.Package{c.Gojq, c.Cli, c.Cmd} {
		info := p.TypesInfo
		for _, fd := range c.Decls(p) {
			ast.Inspect(fd.Body, func(n ast.Node) bool {
				call, ok := n.(*ast.CallExpr)
				if !ok {
					return true
				}
				switch calleeName(info, call) {
				case "os.Exit":
					nExit++
					r.Check(p == c.Cmd, "os.Exit@"+p.Name+"."+declKey(fd), call.Pos(), "os.Exit called in package %s (allowed only in cmd/gojq: the library and cli return statuses)", p.Name)
				case "log.Fatal", "log.Fatalf", "log.Fatalln", "log.Panic", "log.Panicf", "runtime.Goexit":
					r.Bad(calleeName(info, call)+"@"+declKey(fd), call.Pos(), "process-terminating call in %s", declKey(fd))
				}
				if id, ok := call.Fun.(*ast.Ident); ok && id.Name == "recover" && info.Uses[id] == types.Universe.Lookup("recover") {
					r.Check(declKey(fd) == "jsonLimitedMarshal", "recover@"+declKey(fd), call.Pos(), "recover() in %s (allowed only in jsonLimitedMarshal, paired with limitedWriter's control-flow panic; a recover elsewhere would hide a crash path)", declKey(fd))
				}
				return true
			})
		}
	}
	if nExit == 0 {
		r.Undecided("os.Exit", token.NoPos, "no os.Exit call found in cmd/gojq")
	}
	_ = ssa.Function{}
}
