package main

import (
	"fmt"
	"go/ast"
	"go/token"
	"go/types"
	"sort"
	"strings"
)

func init() {
	regProp(&PropInfo{
		ID:    "C13",
		Title: "Documented inverse pairs are exact inverses",
		Decided: "codec-pair agreement only: each native pair uses matching halves — @base64/@base64d both from the Std alphabet family (padded encoder, raw decoder after stripping padding); @uri/@urid QueryEscape/QueryUnescape with the '+' fix-up on both sides; gmtime/mktime both in time.UTC (tests run under UTC, so time.Local in one half passes them) and epoch conversion through Unix()+Nanosecond(), not the range-limited UnixNano (R-C13-pairs); " +
			"todate/fromdate format strings list the same fields in the same order modulo Z/%z (R-C13-dateformat); explode/implode both convert through rune (R-C14-explode, R-C13-pairs); tojson/fromjson: one encoder per package and UseNumber on the decoder (R-C12-single, R-C10-usenumber); the jq-level converters (tostream, fromstream, to_entries, from_entries, with_entries, paths, todate/fromdate) ship as published (R-C03-sync).",
		NotCovered: "the inverse laws themselves (value-level): fromstream(tostream), to_entries|from_entries, split|join, setpath/getpath laws, tostring|tonumber, second-exact date round trips.",
	})
	regProp(&PropInfo{
		ID:    "C20",
		Title: "Iteration and tail recursion run in bounded interpreter space",
		Decided: "the enabling structure, not the bound: every zero-arity inner recursive definition of builtin.go (while, until, repeat, recurse's r) has all its self-calls in tail position under the control-flow definition the optimiser implements (R-C20-tailpos); the tail-call rewrite exists and is conditioned correctly, and runs before the peephole pass that would hide its pattern (R-C04-tailrec, R-C20-passorder); " +
			"on the opcallrec path opscope pops the old frame before pushing the new one and popscope decides whether to free from the frame being popped (R-C20-frame); accumulating loops (reduce, array construction, the hand-assembled lists) end each turn with opbacktrack paired with the loop's opfork (R-C20-backtrack, R-C01-bc, R-C02-bc); opiter leaves no fork behind after the last element (R-C20-iterlast); rangeIter holds three values and no slice (R-C20-rangeiter); stack and scopeStack agree (R-C01-stacksib).",
		NotCovered: "the space bound itself; slot reuse arithmetic of stack.push (limit/index invariant); limit/first/inputs beyond limit's break-in-the-same-turn shape (R-C01-limitbreak); programs whose bodies pin frames with pending forks by design (until bodies using ?, first, limit); the amount the capture buffer is trimmed by (that it is trimmed, up to a position the decoder reported: R-C20-capturetrim, R-C17-window).",
	})
	reg(&Rule{ID: "R-C13-pairs", Props: []string{"C13"}, Floor: 8,
		Doc: "native codec pairs use matching halves (base64 Std family, url Query(Un)Escape with '+' fix-ups, time.UTC on both sides of gmtime/mktime, Unix()+Nanosecond epoch conversion, rune conversions)",
		Run: ruleC13Pairs})
	reg(&Rule{ID: "R-C13-dateformat", Props: []string{"C13"}, Floor: 1,
		Doc: "todateiso8601 and fromdateiso8601 in builtin.go use format strings with the same fields in the same order modulo Z/%z",
		Run: ruleC13DateFormat})
	reg(&Rule{ID: "R-C20-tailpos", Props: []string{"C20"}, Floor: 4,
		Doc: "zero-arity inner recursive definitions of the shipped builtins have every self-call in tail position",
		Run: ruleC20TailPos})
	reg(&Rule{ID: "R-C20-frame", Props: []string{"C20"}, Floor: 3,
		Doc: "opscope pops the old frame before pushing on the callrec path; popscope reads the free condition before popping",
		Run: ruleC20Frame})
	reg(&Rule{ID: "R-C20-backtrack", Props: []string{"C20"}, Floor: 2,
		Doc: "compileReduce and compileArray emit opbacktrack at the end of each iteration, paired with the loop's lazy opfork",
		Run: ruleC20Backtrack})
	reg(&Rule{ID: "R-C20-iterlast", Props: []string{"C20", "C01"}, Floor: 1,
		Doc: "opiter pushes a resumption fork only when elements remain (len(xs) > 1)",
		Run: ruleC20IterLast})
	reg(&Rule{ID: "R-C20-rangeiter", Props: []string{"C20"}, Floor: 1,
		Doc: "rangeIter has exactly three scalar fields and no slice or map",
		Run: ruleC20RangeIter})
	reg(&Rule{ID: "R-C20-passorder", Props: []string{"C20", "C04"}, Floor: 1,
		Doc: "Compile runs optimizeTailRec before optimizeCodeOps (the peephole pass turns jumps-to-next into nops, which the tail-call look-ahead does not skip)",
		Run: ruleC20PassOrder})
}

func selectorsUsed(info *types.Info, n ast.Node, pkg string) map[string]bool {
	out := map[string]bool{}
	ast.Inspect(n, func(m ast.Node) bool {
		if sel, ok := m.(*ast.SelectorExpr); ok {
			if id, ok := sel.X.(*ast.Ident); ok {
				if pn, ok := info.Uses[id].(*types.PkgName); ok && pn.Imported().Path() == pkg {
					out[sel.Sel.Name] = true
				}
			}
		}
		return true
	})
	return out
}

func ruleC13Pairs(c *Ctx, r *Rep) {
	info := c.Gojq.TypesInfo
	get := func(fn string) *ast.FuncDecl {
		fd := c.Decl(c.Gojq, fn)
		if fd == nil {
			r.Undecided(fn, token.NoPos, "not found")
		}
		return fd
	}
	// base64
	enc, dec := get("funcToBase64"), get("funcToBase64d")
	if enc != nil && dec != nil {
		e, d := selectorsUsed(info, enc.Body, "encoding/base64"), selectorsUsed(info, dec.Body, "encoding/base64")
		r.Check(e["StdEncoding"] && len(e) == 1, "base64:encode", enc.Pos(), "@base64 encodes with %v (Std alphabet, padded)", keysOf(e))
		r.Check(d["RawStdEncoding"] && d["StdPadding"] && !d["URLEncoding"] && !d["RawURLEncoding"], "base64:decode", dec.Pos(), "@base64d decodes with %v (Std alphabet, padding stripped first): same alphabet family as the encoder", keysOf(d))
	}
	// uri
	ue, ud := get("funcToURI"), get("funcToURId")
	if ue != nil && ud != nil {
		e, d := selectorsUsed(info, ue.Body, "net/url"), selectorsUsed(info, ud.Body, "net/url")
		se, sd := c.Src(ue.Body), c.Src(ud.Body)
		r.Check(e["QueryEscape"] && len(e) == 1 && strings.Contains(se, `"+", "%20"`), "uri:encode", ue.Pos(), "@uri uses %v and rewrites '+' to %%20", keysOf(e))
		r.Check(d["QueryUnescape"] && len(d) == 1 && strings.Contains(sd, `"+", "%2B"`), "uri:decode", ud.Pos(), "@urid uses %v after protecting a literal '+' as %%2B (QueryUnescape would turn it into a space)", keysOf(d))
	}
	// gmtime/mktime
	locOf := func(fd *ast.FuncDecl, callee string) string {
		loc := "?"
		ast.Inspect(fd.Body, func(m ast.Node) bool {
			if call, ok := m.(*ast.CallExpr); ok && calleeName(info, call) == callee && len(call.Args) == 2 {
				loc = c.Src(call.Args[1])
			}
			return true
		})
		return loc
	}
	if g, m := get("funcGmtime"), get("funcMktime"); g != nil && m != nil {
		lg, lm := locOf(g, "gojq.epochToArray"), locOf(m, "gojq.arrayToTime")
		r.Check(lg == "time.UTC" && lm == "time.UTC", "gmtime/mktime", g.Pos(), "gmtime breaks down in %s and mktime assembles in %s (must both be time.UTC; the suite runs under UTC and cannot tell)", lg, lm)
	}
	if s, l := get("funcStrftime"), get("funcStrflocaltime"); s != nil && l != nil {
		r.Check(locOf(s, "gojq.epochToArray") == "time.UTC" && locOf(s, "gojq.arrayToTime") == "time.UTC", "strftime", s.Pos(), "strftime uses time.UTC for both conversions")
		r.Check(locOf(l, "gojq.epochToArray") == "time.Local" && locOf(l, "gojq.arrayToTime") == "time.Local", "strflocaltime", l.Pos(), "strflocaltime uses time.Local for both conversions")
	}
	// epoch conversion: Unix() + Nanosecond(); no UnixNano/UnixMicro/UnixMilli anywhere in package gojq
	limited := 0
	for _, fd := range c.Decls(c.Gojq) {
		ast.Inspect(fd.Body, func(m ast.Node) bool {
			if call, ok := m.(*ast.CallExpr); ok {
				switch nm := calleeName(info, call); nm {
				case "time.Time.UnixNano", "time.Time.UnixMicro", "time.Time.UnixMilli":
					limited++
					r.Bad("epoch:"+declKey(fd)+":"+nm, call.Pos(), "%s in %s: the result is undefined outside years 1678–2262, so gmtime|mktime and todate|fromdate stop being inverses for |seconds| > 9223372036", nm, declKey(fd))
				}
			}
			return true
		})
	}
	if te := get("timeToEpoch"); te != nil {
		src := c.Src(te.Body)
		r.Check(strings.Contains(src, ".Unix()") && strings.Contains(src, ".Nanosecond()") && limited == 0, "epoch:timeToEpoch", te.Pos(), "timeToEpoch converts with Unix() and Nanosecond() (full range)")
	}
	if ea := get("epochToArray"); ea != nil {
		r.Check(callsFunc(c, info, ea.Body, "time.Unix") != "", "epoch:epochToArray", ea.Pos(), "epochToArray builds the time with time.Unix(sec, nsec)")
	}
	// implode converts through rune and range-checks against utf8.MaxRune
	if im := get("funcImplode"); im != nil {
		src := c.Src(im.Body)
		r.Check(strings.Contains(src, "WriteRune(rune(") && strings.Contains(src, "utf8.MaxRune"), "implode", im.Pos(), "implode writes rune(r) for 0 <= r <= utf8.MaxRune (the inverse of explode's int(r))")
	}
	if ex := get("explode"); ex != nil {
		r.Check(strings.Contains(c.Src(ex.Body), "int(r)"), "explode", ex.Pos(), "explode stores int(r) per rune")
	}
}

// litFuncDef finds the shipped definition name/arity (first match) in the evaluated builtin.go literal.
func litFuncDefs(m *litNode, name string) []*litNode {
	var out []*litNode
	if l, ok := m.fields[name].([]any); ok {
		for _, fd := range l {
			out = append(out, fd.(*litNode))
		}
	}
	return out
}

func litStrings(n any, out *[]string) {
	switch x := n.(type) {
	case *litNode:
		if x.typ == "String" {
			if s := nStr(x, "Str"); s != "" {
				*out = append(*out, s)
			}
		}
		keys := make([]string, 0, len(x.fields))
		for k := range x.fields {
			keys = append(keys, k)
		}
		sort.Strings(keys)
		for _, k := range keys {
			litStrings(x.fields[k], out)
		}
	case []any:
		for _, e := range x {
			litStrings(e, out)
		}
	}
}

func ruleC13DateFormat(c *Ctx, r *Rep) {
	m, err := getBuiltinLit(c)
	if err != nil {
		r.Undecided("builtin.go", token.NoPos, "%v", err)
		return
	}
	get := func(name string) string {
		var ss []string
		for _, fd := range litFuncDefs(m, name) {
			litStrings(nSub(fd, "Body"), &ss)
		}
		if len(ss) == 1 {
			return ss[0]
		}
		return ""
	}
	to, from := get("todateiso8601"), get("fromdateiso8601")
	if to == "" || from == "" {
		r.Undecided("formats", token.NoPos, "format strings of todateiso8601/fromdateiso8601 not found (%q, %q)", to, from)
		return
	}
	norm := func(s string) string { return strings.TrimSuffix(strings.TrimSuffix(s, "Z"), "%z") }
	r.Check(norm(to) == norm(from) && strings.HasSuffix(to, "Z") && strings.HasSuffix(from, "%z"), "todate/fromdate", token.NoPos, "todate formats with %q and fromdate parses with %q: same fields in the same order modulo Z/%%z", to, from)
}

// ---- C20 ----

// tailCalls walks a query in tail position and reports self-calls (name, 0 args) found in non-tail position.
func tailScan(n *litNode, self string, tail bool, where string, bad *[]string, seen *int) {
	if n == nil {
		return
	}
	// nested definitions shadowing self stop the scan
	for _, fd := range nList(n, "FuncDefs") {
		d := fd.(*litNode)
		if nStr(d, "Name") == self && len(nList(d, "Args")) == 0 {
			return
		}
		tailScan(nSub(d, "Body"), self, false, where+"/def "+nStr(d, "Name"), bad, seen)
	}
	if t := nSub(n, "Term"); t != nil {
		tailTerm(t, self, tail, where, bad, seen)
		return
	}
	op := strings.TrimPrefix(nStr(n, "Op"), "const:")
	l, r := nSub(n, "Left"), nSub(n, "Right")
	switch op {
	case "OpPipe":
		tailScan(l, self, false, where+"/|L", bad, seen)
		tailScan(r, self, tail, where+"/|R", bad, seen)
	case "OpComma":
		// the left alternative is followed by the right one: only the right operand is a tail
		tailScan(l, self, false, where+"/,L", bad, seen)
		tailScan(r, self, tail, where+"/,R", bad, seen)
	default:
		tailScan(l, self, false, where+"/"+op+"L", bad, seen)
		tailScan(r, self, false, where+"/"+op+"R", bad, seen)
	}
}

func tailTerm(t *litNode, self string, tail bool, where string, bad *[]string, seen *int) {
	typ := strings.TrimPrefix(nStr(t, "Type"), "const:")
	hasSuffix := len(nList(t, "SuffixList")) > 0
	inner := tail && !hasSuffix
	switch typ {
	case "TermTypeFunc":
		f := nSub(t, "Func")
		if nStr(f, "Name") == self && len(nList(f, "Args")) == 0 {
			*seen++
			if !inner {
				*bad = append(*bad, where)
			}
		}
		for i, a := range nList(f, "Args") {
			tailScan(a.(*litNode), self, false, fmt.Sprintf("%s/%s.arg%d", where, nStr(f, "Name"), i), bad, seen)
		}
	case "TermTypeIf":
		i := nSub(t, "If")
		tailScan(nSub(i, "Cond"), self, false, where+"/if.cond", bad, seen)
		tailScan(nSub(i, "Then"), self, inner, where+"/if.then", bad, seen)
		for _, e := range nList(i, "Elif") {
			tailScan(nSub(e.(*litNode), "Cond"), self, false, where+"/elif.cond", bad, seen)
			tailScan(nSub(e.(*litNode), "Then"), self, inner, where+"/elif.then", bad, seen)
		}
		tailScan(nSub(i, "Else"), self, inner, where+"/if.else", bad, seen)
	case "TermTypeQuery":
		tailScan(nSub(t, "Query"), self, inner, where+"/()", bad, seen)
	case "TermTypeLabel":
		tailScan(nSub(nSub(t, "Label"), "Body"), self, inner, where+"/label", bad, seen)
	case "TermTypeTry":
		tailScan(nSub(nSub(t, "Try"), "Body"), self, false, where+"/try", bad, seen)
		tailScan(nSub(nSub(t, "Try"), "Catch"), self, false, where+"/catch", bad, seen)
	case "TermTypeReduce", "TermTypeForeach":
		r := nSub(t, strings.TrimPrefix(typ, "TermType"))
		for _, f := range []string{"Query", "Start", "Update", "Extract"} {
			tailScan(nSub(r, f), self, false, where+"/"+typ+"."+f, bad, seen)
		}
	case "TermTypeArray":
		tailScan(nSub(nSub(t, "Array"), "Query"), self, false, where+"/[]", bad, seen)
	case "TermTypeObject":
		for _, kv := range nList(nSub(t, "Object"), "KeyVals") {
			tailScan(nSub(kv.(*litNode), "KeyQuery"), self, false, where+"/{key}", bad, seen)
			tailScan(nSub(kv.(*litNode), "Val"), self, false, where+"/{val}", bad, seen)
		}
	case "TermTypeUnary":
		tailTerm(nSub(nSub(t, "Unary"), "Term"), self, false, where+"/unary", bad, seen)
	case "TermTypeIndex":
		if ix := nSub(t, "Index"); ix != nil {
			tailScan(nSub(ix, "Start"), self, false, where+"/index", bad, seen)
			tailScan(nSub(ix, "End"), self, false, where+"/index", bad, seen)
		}
	}
	for _, s := range nList(t, "SuffixList") {
		if ix := nSub(s.(*litNode), "Index"); ix != nil {
			tailScan(nSub(ix, "Start"), self, false, where+"/suffix", bad, seen)
			tailScan(nSub(ix, "End"), self, false, where+"/suffix", bad, seen)
		}
	}
}

func ruleC20TailPos(c *Ctx, r *Rep) {
	m, err := getBuiltinLit(c)
	if err != nil {
		r.Undecided("builtin.go", token.NoPos, "%v", err)
		return
	}
	// constant-space loops of the property: (outer name, arity) → the inner zero-arity recursive definition must be tail-recursive
	type want struct {
		outer string
		arity int
	}
	wants := []want{{"while", 2}, {"until", 2}, {"repeat", 1}, {"recurse", 1}, {"recurse", 2}}
	for _, w := range wants {
		var def *litNode
		for _, fd := range litFuncDefs(m, w.outer) {
			if len(nList(fd, "Args")) == w.arity {
				def = fd
			}
		}
		key := fmt.Sprintf("%s/%d", w.outer, w.arity)
		if def == nil {
			r.Undecided(key, token.NoPos, "shipped definition not found")
			continue
		}
		body := nSub(def, "Body")
		inner := nList(body, "FuncDefs")
		if len(inner) != 1 {
			r.Bad(key, token.NoPos, "%s no longer has exactly one inner definition (the constant-space recursion helper): %d", key, len(inner))
			continue
		}
		d := inner[0].(*litNode)
		self := nStr(d, "Name")
		if len(nList(d, "Args")) != 0 {
			r.Bad(key, token.NoPos, "inner definition %s of %s takes parameters: the tail-call optimisation applies only to zero-arity definitions", self, key)
			continue
		}
		var bad []string
		seen := 0
		tailScan(nSub(d, "Body"), self, true, self, &bad, &seen)
		r.Check(seen > 0 && len(bad) == 0, key, token.NoPos, "inner definition %s of %s: %d self-call(s), non-tail: %v (a self-call under try, reduce/foreach, construction, an operator argument or the left of a pipe/comma keeps one frame per turn; output is unchanged, so every test stays green)", self, key, seen, bad)
	}
}

func ruleC20Frame(c *Ctx, r *Rep) {
	vm := getVM(c)
	if vm.Err != "" {
		r.Undecided("vm-model", token.NoPos, "%s", vm.Err)
		return
	}
	info := vm.info
	cl := vm.ByOp["opscope"]
	if cl == nil {
		r.Undecided("opscope", token.NoPos, "no clause")
		return
	}
	// popscope() call position < scopes.push position; the popscope call sits in the else of `if callpc >= 0`
	var popPos, pushPos token.Pos
	inElse := false
	walkStack(cl.CC, func(m ast.Node, stack []ast.Node) bool {
		call, ok := m.(*ast.CallExpr)
		if !ok {
			return true
		}
		switch vm.envMethod(call) {
		case "popscope":
			popPos = call.Pos()
			for i := len(stack) - 1; i >= 0; i-- {
				if ifs, ok := stack[i].(*ast.IfStmt); ok && ifs.Else != nil && ifs.Else.Pos() <= call.Pos() && call.End() <= ifs.Else.End() {
					if be, ok := unparen(ifs.Cond).(*ast.BinaryExpr); ok && be.Op == token.GEQ && vm.isVar(be.X, "callpc") {
						inElse = true
					}
				}
			}
		case "scopes.push":
			pushPos = call.Pos()
		}
		return true
	})
	r.Check(popPos.IsValid() && pushPos.IsValid() && popPos < pushPos && inElse, "opscope:pop-before-push", cl.CC.Pos(), "on the frame-replacing path (callpc < 0) opscope calls popscope() before env.scopes.push: pop at %s, push at %s, in the callrec branch %v", c.Pos(popPos), c.Pos(pushPos), inElse)
	// opcallrec sets callpc = -1
	if rc := vm.ByOp["opcallrec"]; rc != nil {
		ok := false
		ast.Inspect(rc.CC, func(m ast.Node) bool {
			if as, ok2 := m.(*ast.AssignStmt); ok2 && len(as.Lhs) == len(as.Rhs) {
				for i, l := range as.Lhs {
					if vm.isVar(l, "callpc") {
						if v, ok3 := constInt(info, as.Rhs[i]); ok3 && v == -1 {
							ok = true
						}
					}
				}
			}
			return true
		})
		r.Check(ok, "opcallrec:callpc", rc.CC.Pos(), "opcallrec marks the call as frame-replacing (callpc = -1): %v", ok)
	}
	// popscope: `free` is computed from env.scopes.index > env.scopes.limit BEFORE env.scopes.pop()
	fd := c.Decl(c.Gojq, "env.popscope")
	if fd == nil {
		r.Undecided("popscope", token.NoPos, "not found")
		return
	}
	var freePos, popP token.Pos
	var restores bool
	ast.Inspect(fd.Body, func(m ast.Node) bool {
		switch x := m.(type) {
		case *ast.BinaryExpr:
			if x.Op == token.GTR && strings.HasSuffix(c.Src(x.X), ".scopes.index") && strings.HasSuffix(c.Src(x.Y), ".scopes.limit") {
				freePos = x.Pos()
			}
		case *ast.CallExpr:
			if sel, ok := x.Fun.(*ast.SelectorExpr); ok && sel.Sel.Name == "pop" && strings.HasSuffix(c.Src(sel.X), ".scopes") {
				popP = x.Pos()
			}
		case *ast.AssignStmt:
			for _, l := range x.Lhs {
				if isEnvField(info, l, "offset") {
					restores = true
				}
			}
		}
		return true
	})
	r.Check(freePos.IsValid() && popP.IsValid() && freePos < popP && restores, "popscope:free-before-pop", fd.Pos(), "popscope evaluates `scopes.index > scopes.limit` (is the frame being popped pinned by a fork?) before scopes.pop() and rewinds env.offset when it is free: free@%s pop@%s restores=%v — asking after the pop tests the caller instead, which never changes an output but stops frames from being released under a pending fork", c.Pos(freePos), c.Pos(popP), restores)
}

func ruleC20Backtrack(c *Ctx, r *Rep) {
	info := c.Gojq.TypesInfo
	emits := getEmits(c)
	for _, fn := range []string{"compiler.compileReduce", "compiler.compileArray"} {
		fd := c.Decl(c.Gojq, fn)
		if fd == nil {
			r.Undecided(fn, token.NoPos, "not found")
			continue
		}
		// lazy opfork closer `setfork`, an opbacktrack emission, then the closer call — in that source order
		var forkLazy, backtrack, closerCall token.Pos
		var closerObj types.Object
		for _, e := range emits {
			if e.Fn != fd {
				continue
			}
			if e.Op == "opfork" && e.InLazy && !forkLazy.IsValid() {
				forkLazy = e.Lit.Pos()
			}
			if e.Op == "opbacktrack" {
				backtrack = e.Lit.Pos()
			}
		}
		ast.Inspect(fd.Body, func(m ast.Node) bool {
			if as, ok := m.(*ast.AssignStmt); ok && len(as.Rhs) == 1 && forkLazy.IsValid() && as.Rhs[0].Pos() <= forkLazy && forkLazy < as.Rhs[0].End() {
				if id, ok := as.Lhs[0].(*ast.Ident); ok {
					closerObj = info.ObjectOf(id)
				}
			}
			if es, ok := m.(*ast.ExprStmt); ok {
				if call, ok := es.X.(*ast.CallExpr); ok {
					if id, ok := call.Fun.(*ast.Ident); ok && closerObj != nil && info.Uses[id] == closerObj {
						closerCall = call.Pos()
					}
				}
			}
			return true
		})
		ok := forkLazy.IsValid() && backtrack.IsValid() && closerCall.IsValid() && forkLazy < backtrack && backtrack < closerCall
		r.Check(ok, fn, fd.Pos(), "%s: loop fork (lazy) at %s, opbacktrack at %s, fork target fixed right after it at %s — each turn ends by backtracking into the loop's fork, releasing that turn's forks and stack blocks", fn, c.Pos(forkLazy), c.Pos(backtrack), c.Pos(closerCall))
	}
}

func ruleC20IterLast(c *Ctx, r *Rep) {
	vm := getVM(c)
	if vm.Err != "" {
		r.Undecided("vm-model", token.NoPos, "%s", vm.Err)
		return
	}
	cl := vm.ByOp["opiter"]
	if cl == nil {
		r.Undecided("opiter", token.NoPos, "no clause")
		return
	}
	// every pushfork in opiter outside the Iter arm is inside `if len(xs) > 1`
	n := 0
	walkStack(cl.CC, func(m ast.Node, stack []ast.Node) bool {
		call, ok := m.(*ast.CallExpr)
		if !ok || vm.envMethod(call) != "pushfork" {
			return true
		}
		// the Iter arm pushes the iterator itself (it cannot know whether more values follow)
		inIterArm := false
		guarded := false
		for i := len(stack) - 1; i >= 0; i-- {
			switch x := stack[i].(type) {
			case *ast.CaseClause:
				for _, e := range x.List {
					if t := vm.info.TypeOf(e); t != nil && strings.HasSuffix(t.String(), "gojq.Iter") {
						inIterArm = true
					}
				}
			case *ast.IfStmt:
				if be, ok := unparen(x.Cond).(*ast.BinaryExpr); ok && be.Op == token.GTR {
					if v, ok := constInt(vm.info, be.Y); ok && v == 1 && strings.HasPrefix(c.Src(be.X), "len(") {
						guarded = true
					}
				}
			}
		}
		if inIterArm {
			return true
		}
		n++
		r.Check(guarded, "opiter:pushfork", call.Pos(), "opiter pushes its resumption fork only under `len(xs) > 1`: %v — a fork left behind after the last element pins the stack, scope and path blocks of every iteration, so loops over arrays grow without changing any output", guarded)
		return true
	})
	if n == 0 {
		r.Undecided("opiter:pushfork", cl.CC.Pos(), "no pushfork outside the Iter arm found")
	}
}

func ruleC20RangeIter(c *Ctx, r *Rep) {
	tn, _ := c.Gojq.Types.Scope().Lookup("rangeIter").(*types.TypeName)
	if tn == nil {
		r.Undecided("rangeIter", token.NoPos, "not found")
		return
	}
	st, ok := tn.Type().Underlying().(*types.Struct)
	if !ok {
		r.Bad("rangeIter", tn.Pos(), "rangeIter is not a struct")
		return
	}
	okc := st.NumFields() <= 4
	for i := 0; i < st.NumFields(); i++ {
		switch st.Field(i).Type().Underlying().(type) {
		case *types.Slice, *types.Map, *types.Chan:
			okc = false
		}
	}
	r.Check(okc, "rangeIter", tn.Pos(), "rangeIter holds %d scalar/interface fields and no slice, map or channel (range never materialises its values)", st.NumFields())
}

func ruleC20PassOrder(c *Ctx, r *Rep) {
	info := c.Gojq.TypesInfo
	fd := c.Decl(c.Gojq, "Compile")
	if fd == nil {
		r.Undecided("Compile", token.NoPos, "not found")
		return
	}
	var tail, peep token.Pos
	ast.Inspect(fd.Body, func(m ast.Node) bool {
		if call, ok := m.(*ast.CallExpr); ok {
			switch calleeName(info, call) {
			case "gojq.compiler.optimizeTailRec":
				tail = call.Pos()
			case "gojq.compiler.optimizeCodeOps":
				peep = call.Pos()
			}
		}
		return true
	})
	r.Check(tail.IsValid() && peep.IsValid() && tail < peep, "Compile:pass-order", fd.Pos(), "optimizeTailRec (%s) runs before optimizeCodeOps (%s): the tail-call look-ahead follows opjump only, and the peephole pass rewrites a jump-to-next into opnop", c.Pos(tail), c.Pos(peep))
}
