package main

import (
	"fmt"
	"go/ast"
	"go/token"
	"go/types"
	"strings"

	"golang.org/x/tools/go/packages"
)

func init() {
	regProp(&PropInfo{
		ID:    "C10",
		Title: "Integer arithmetic is exact and number literals are not degraded",
		Decided: "presence and placement of the overflow guards, not their arithmetic: in every int callback of binopTypeSwitch and in negate/funcAbs/funcLength an int + - * result is returned only under a condition that reads that result, with a math/big computation on the other edge; unary minus on int is dominated by a comparison with math.MinInt; int / and % sit under tests of the divisor against 0 and -1 (R-C10-guard); integer operand pairs are never routed through float64 and Compare uses exact integer comparison (R-C03-dispatch, R-C11-cmpcells); " +
			"json.Number is interpreted in one place (R-C03-normpoint, R-C03-numrep); every JSON decoder in gojq and cli whose values reach a query calls UseNumber before its first use, and no json.Unmarshal decodes into interface-typed values (R-C10-usenumber); both encoders print json.Number via String() unchanged, int via AppendInt base 10, *big.Int via Append base 10, floats through the shared encodeFloat64, and agree with each other (R-C10-verbatim, R-C12-sib).",
		NotCovered: "correctness of the overflow predicates themselves and of big promotion results (needs a solver: a different technique family); sign of %; the shape of every printed literal; shortest round-trip float text.",
	})
	reg(&Rule{ID: "R-C10-guard", Props: []string{"C10"}, Floor: 8,
		Doc: "int fast paths: + - * results are returned only under a test reading the result with a math/big fallback; -x is guarded by math.MinInt; / and % by divisor tests against 0 and -1",
		Run: ruleC10Guard})
	reg(&Rule{ID: "R-C10-parseerr", Props: []string{"C10", "C03"}, Floor: 3,
		Doc: "parseNumber (the single normalisation point) discards no parse error or ok flag: every saturating parse result is used only after its error was tested",
		Run: ruleC10ParseErr})
	reg(&Rule{ID: "R-C10-usenumber", Props: []string{"C10", "C16", "C13"}, Floor: 4,
		Doc: "every json.NewDecoder in gojq and cli calls UseNumber() before any other use; json.Unmarshal never targets interface-typed values",
		Run: ruleC10UseNumber})
	reg(&Rule{ID: "R-C10-verbatim", Props: []string{"C10"}, Floor: 6,
		Doc: "both encoders write json.Number via String(), int via strconv.AppendInt(…,10), *big.Int via Append(…,10), float64 via encodeFloat64",
		Run: ruleC10Verbatim})
}

func isIntType(t types.Type) bool {
	b, ok := t.(*types.Basic)
	return ok && b.Kind() == types.Int
}

// isMachineInt: int and the sized signed integers (an int64 detour inside a *big.Int callback wraps like int does).
func isMachineInt(t types.Type) bool {
	b, ok := t.Underlying().(*types.Basic)
	if !ok {
		return false
	}
	switch b.Kind() {
	case types.Int, types.Int64, types.Int32:
		return true
	}
	return false
}

// intArithScopes: the bodies in which int fast-path arithmetic lives.
func intArithScopes(c *Ctx) map[string]ast.Node {
	info := c.Gojq.TypesInfo
	out := map[string]ast.Node{}
	for _, fn := range []string{"funcOpAdd", "funcOpSub", "funcOpMul", "funcOpDiv", "funcOpMod"} {
		fd := c.Decl(c.Gojq, fn)
		if fd == nil {
			continue
		}
		ast.Inspect(fd.Body, func(m ast.Node) bool {
			call, ok := m.(*ast.CallExpr)
			if !ok || !strings.HasPrefix(calleeName(info, call), "gojq.binopTypeSwitch") || len(call.Args) < 3 {
				return true
			}
			// the other numeric callbacks (float64, *big.Int): machine-integer arithmetic inside them is held to the same rules
			for k := 3; k <= 4 && k < len(call.Args); k++ {
				if fl, ok := unparen(call.Args[k]).(*ast.FuncLit); ok {
					out[fmt.Sprintf("%s:cb%d", fn, k-2)] = fl.Body
				}
			}
			switch cb := unparen(call.Args[2]).(type) {
			case *ast.FuncLit:
				out[fn+":ints"] = cb.Body
			case *ast.Ident:
				// the callback extracted into a named function
				if f, ok := info.Uses[cb].(*types.Func); ok {
					if d := c.Decl(c.Gojq, f.Name()); d != nil {
						out[fn+":ints"] = d.Body
					}
				}
			}
			return false
		})
	}
	// helpers with an int parameter called from those bodies (addInts-style extraction), transitively
	for changed, depth := true, 0; changed && depth < 3; depth++ {
		changed = false
		for name, body := range out {
			_ = name
			ast.Inspect(body, func(m ast.Node) bool {
				call, ok := m.(*ast.CallExpr)
				if !ok {
					return true
				}
				f, ok := callee(info, call).(*types.Func)
				if !ok || f.Pkg() == nil || f.Pkg().Path() != pathGojq || f.Type().(*types.Signature).Recv() != nil {
					return true
				}
				hasInt := false
				ps := f.Type().(*types.Signature).Params()
				for i := 0; i < ps.Len(); i++ {
					if isIntType(ps.At(i).Type()) {
						hasInt = true
					}
				}
				if d := c.Decl(c.Gojq, f.Name()); hasInt && d != nil {
					if _, had := out[f.Name()]; !had {
						out[f.Name()] = d.Body
						changed = true
					}
				}
				return true
			})
		}
	}
	for _, fn := range []string{"negate", "funcAbs", "funcLength"} {
		if fd := c.Decl(c.Gojq, fn); fd != nil {
			out[fn] = fd.Body
		}
	}
	return out
}

func usesBig(info *types.Info, n ast.Node) bool {
	found := false
	ast.Inspect(n, func(m ast.Node) bool {
		if call, ok := m.(*ast.CallExpr); ok {
			nm := calleeName(info, call)
			if strings.HasPrefix(nm, "big.") || nm == "gojq.negate" {
				found = true
			}
		}
		return !found
	})
	return found
}

func ruleC10Guard(c *Ctx, r *Rep) {
	info := c.Gojq.TypesInfo
	scopes := intArithScopes(c)
	if len(scopes) < 8 {
		r.Undecided("scopes", token.NoPos, "expected the int callbacks of the five arithmetic operators and negate/funcAbs/funcLength, found %d", len(scopes))
		return
	}
	for name, body := range scopes {
		walkStack(body, func(m ast.Node, stack []ast.Node) bool {
			if _, ok := m.(*ast.FuncLit); ok && m != body {
				return false
			}
			switch x := m.(type) {
			case *ast.BinaryExpr:
				tx, ty := info.TypeOf(x.X), info.TypeOf(x.Y)
				if tx == nil || ty == nil || !isMachineInt(tx) || !isMachineInt(ty) {
					return true
				}
				if tv, ok := info.Types[x]; ok && tv.Value != nil {
					return true // constant expression
				}
				switch x.Op {
				case token.ADD, token.SUB, token.MUL:
					key := name + ":" + x.Op.String()
					// accepted: `if v := l OP r; COND(v) { return v }` followed by a math/big computation
					var ifs *ast.IfStmt
					var defObj types.Object
					for i := len(stack) - 1; i >= 0; i-- {
						if s, ok := stack[i].(*ast.IfStmt); ok && s.Init != nil {
							if as, ok := s.Init.(*ast.AssignStmt); ok && len(as.Rhs) == 1 && unparen(as.Rhs[0]) == ast.Expr(x) && len(as.Lhs) == 1 {
								ifs = s
								defObj = info.ObjectOf(as.Lhs[0].(*ast.Ident))
							}
						}
					}
					if ifs == nil {
						r.Bad(key, x.Pos(), "int arithmetic `%s` in %s is not of the guarded form `if v := l %s r; <test reading v> { return v }`: a wrapped result can be returned (e.g. a fast path for \"small\" operands whose bound is one bit too generous: 3037000500*3037000500 wraps)", c.Src(x), name, x.Op)
						return true
					}
					reads := mentions(ifs.Cond, func(e ast.Expr) bool {
						id, ok := e.(*ast.Ident)
						return ok && info.Uses[id] == defObj
					})
					// big fallback after the if, in the same statement list
					list, idx := stmtListOf(body, ifs)
					fallback := false
					for i := idx + 1; i < len(list); i++ {
						if usesBig(info, list[i]) {
							fallback = true
						}
					}
					r.Check(reads && fallback, key, x.Pos(), "`%s` in %s: overflow test reads the result (%v) and the other edge computes in math/big (%v)", c.Src(x), name, reads, fallback)
				case token.QUO, token.REM:
					key := name + ":" + x.Op.String()
					// inside the default clause of a switch over the divisor listing 0 and -1, or after ifs testing both
					okc := false
					for i := len(stack) - 1; i >= 0 && !okc; i-- {
						sw, ok := stack[i].(*ast.SwitchStmt)
						if !ok || sw.Tag == nil || !sameObj(info, sw.Tag, x.Y) {
							continue
						}
						zero, minus := false, false
						for _, s := range sw.Body.List {
							for _, e := range s.(*ast.CaseClause).List {
								if v, ok := constInt(info, e); ok {
									if v == 0 {
										zero = true
									}
									if v == -1 {
										minus = true
									}
								}
							}
						}
						okc = zero && minus
					}
					if !okc {
						// form 2: an earlier `if d == -1 { return … }` in the body and the division is the right operand of `d == 0 || …`
						minus := false
						ast.Inspect(body, func(k ast.Node) bool {
							ifs, ok := k.(*ast.IfStmt)
							if !ok || ifs.Pos() > x.Pos() {
								return true
							}
							if be, ok := unparen(ifs.Cond).(*ast.BinaryExpr); ok && be.Op == token.EQL && sameObj(info, be.X, x.Y) {
								if v, ok := constInt(info, be.Y); ok && v == -1 && endsInReturn(ifs.Body) {
									minus = true
								}
							}
							return true
						})
						zero := false
						for i := len(stack) - 1; i >= 0; i-- {
							if be, ok := stack[i].(*ast.BinaryExpr); ok && be.Op == token.LOR {
								if l, ok := unparen(be.X).(*ast.BinaryExpr); ok && l.Op == token.EQL && sameObj(info, l.X, x.Y) {
									if v, ok := constInt(info, l.Y); ok && v == 0 && be.Y.Pos() <= x.Pos() && x.End() <= be.Y.End() {
										zero = true
									}
								}
							}
						}
						okc = minus && zero
					}
					if !okc && x.Op == token.REM {
						// form 3, remainder only: Go defines MinInt % -1 as 0, so only division by zero must be excluded:
						// an earlier `if d == 0 { return … }` on the divisor
						ast.Inspect(body, func(k ast.Node) bool {
							ifs, ok := k.(*ast.IfStmt)
							if !ok || ifs.Pos() > x.Pos() || !endsInReturn(ifs.Body) {
								return true
							}
							if be, ok := unparen(ifs.Cond).(*ast.BinaryExpr); ok && be.Op == token.EQL && sameObj(info, be.X, x.Y) {
								if v, ok := constInt(info, be.Y); ok && v == 0 {
									okc = true
								}
							}
							return true
						})
					}
					r.Check(okc, key, x.Pos(), "`%s` in %s is reached only after the divisor was tested against 0 (error) and, for a quotient, -1 (MinInt / -1 overflows; Go defines MinInt %% -1 as 0): %v", c.Src(x), name, okc)
				}
			case *ast.UnaryExpr:
				if x.Op != token.SUB {
					return true
				}
				if t := info.TypeOf(x.X); t == nil || !isIntType(t) {
					return true
				}
				if tv, ok := info.Types[x]; ok && tv.Value != nil {
					return true
				}
				key := name + ":neg"
				// a preceding `if v == math.MinInt { … big … return }` on the same operand
				okc := false
				ast.Inspect(body, func(k ast.Node) bool {
					ifs, ok := k.(*ast.IfStmt)
					if !ok || ifs.Pos() > x.Pos() {
						return true
					}
					be, ok := unparen(ifs.Cond).(*ast.BinaryExpr)
					if !ok || be.Op != token.EQL || !sameObj(info, be.X, x.X) {
						return true
					}
					if sel, ok := unparen(be.Y).(*ast.SelectorExpr); ok && sel.Sel.Name == "MinInt" && usesBig(info, ifs.Body) && endsInReturn(ifs.Body) {
						okc = true
					}
					return true
				})
				r.Check(okc, key, x.Pos(), "`%s` in %s is preceded by `if %s == math.MinInt { …math/big…; return }`: %v", c.Src(x), name, c.Src(x.X), okc)
			}
			return true
		})
	}
	// funcAbs / funcLength negate ints through negate(), not with a bare minus
	for _, fn := range []string{"funcAbs", "funcLength"} {
		fd := c.Decl(c.Gojq, fn)
		if fd == nil {
			continue
		}
		ok := callsFunc(c, info, fd.Body, "gojq.negate") != ""
		r.Check(ok, fn+":negate", fd.Pos(), "%s negates int through negate() (MinInt promotes to big): %v", fn, ok)
	}
}

func ruleC10UseNumber(c *Ctx, r *Rep) {
	n := 0
	for _, p := range []*packages.Package{c.Gojq, c.Cli} {
		info := p.TypesInfo
		for _, fd := range c.Decls(p) {
			fn := p.Name + "." + declKey(fd)
			ast.Inspect(fd.Body, func(m ast.Node) bool {
				switch x := m.(type) {
				case *ast.AssignStmt:
					for i, rhs := range x.Rhs {
						call, ok := unparen(rhs).(*ast.CallExpr)
						if !ok || calleeName(info, call) != "json.NewDecoder" || i >= len(x.Lhs) {
							continue
						}
						n++
						id, ok := x.Lhs[i].(*ast.Ident)
						if !ok {
							r.Bad(fn+":NewDecoder", call.Pos(), "decoder is not bound to a local variable; UseNumber cannot be shown to precede its use")
							continue
						}
						obj := info.ObjectOf(id)
						// the first use of the variable after the definition must be the statement `dec.UseNumber()`
						list, idx := stmtListOf(fd.Body, x)
						okc := false
						why := "no statement follows the definition"
						if idx >= 0 && idx+1 < len(list) {
							next := list[idx+1]
							why = "the statement after the definition is `" + firstWords(c.Src(next), 8) + "`"
							if es, ok := next.(*ast.ExprStmt); ok {
								if cl, ok := es.X.(*ast.CallExpr); ok && calleeName(info, cl) == "json.Decoder.UseNumber" {
									if sel, ok := cl.Fun.(*ast.SelectorExpr); ok {
										if rid, ok := unparen(sel.X).(*ast.Ident); ok && info.ObjectOf(rid) == obj {
											okc = true
										}
									}
								}
							}
						}
						r.Check(okc, fn+":NewDecoder", call.Pos(), "json.NewDecoder in %s is followed immediately by UseNumber(): %v (%s) — without it integers above 2^53 and literals such as 1.0 or 1e400 are degraded at the door", fn, okc, why)
					}
				case *ast.CallExpr:
					nm := calleeName(info, x)
					if nm == "json.NewDecoder" {
						// used as an expression without binding (e.g. json.NewDecoder(r).Decode(&v))
						bound := false
						ast.Inspect(fd.Body, func(k ast.Node) bool {
							if as, ok := k.(*ast.AssignStmt); ok {
								for _, rhs := range as.Rhs {
									if unparen(rhs) == ast.Expr(x) {
										bound = true
									}
								}
							}
							return true
						})
						if !bound {
							n++
							r.Bad(fn+":NewDecoder(inline)", x.Pos(), "json.NewDecoder used inline in %s: UseNumber() cannot have been called", fn)
						}
					}
					if nm == "json.Unmarshal" && len(x.Args) == 2 {
						n++
						t := info.TypeOf(x.Args[1])
						target := ""
						if pt, ok := t.(*types.Pointer); ok {
							target = pt.Elem().String()
							okc := !mayHoldContainer(pt.Elem()) || pt.Elem().String() == "string"
							// a destination that is never read: the call is made for its error only (re-locating a syntax error)
							if u, ok := unparen(x.Args[1]).(*ast.UnaryExpr); ok && u.Op == token.AND && !okc {
								if id, ok := unparen(u.X).(*ast.Ident); ok {
									obj := info.ObjectOf(id)
									reads := 0
									ast.Inspect(fd.Body, func(k ast.Node) bool {
										if kid, ok := k.(*ast.Ident); ok && kid != id && info.Uses[kid] == obj {
											reads++
										}
										return true
									})
									if reads == 0 {
										r.OK(fn+":Unmarshal", x.Pos(), "json.Unmarshal in %s decodes into %s, which is never read: only the error of the call is used, no number can lose its spelling", fn, id.Name)
										return true
									}
								}
							}
							r.Check(okc, fn+":Unmarshal", x.Pos(), "json.Unmarshal in %s decodes into %s: %s", fn, target, map[bool]string{true: "a concrete non-JSON-value type", false: "an interface-typed JSON value — numbers become float64 (no UseNumber), so big integers and literal shapes are lost; the sibling readers go through newJSONInputIter"}[okc])
						}
					}
				}
				return true
			})
		}
	}
	if n < 4 {
		r.Undecided("census", token.NoPos, "only %d JSON decoding sites found", n)
	}
}

func ruleC10Verbatim(c *Ctx, r *Rep) {
	for _, p := range []*packages.Package{c.Gojq, c.Cli} {
		info := p.TypesInfo
		fd := c.Decl(p, "encoder.encode")
		if fd == nil {
			r.Undecided(p.Name+".encoder.encode", token.NoPos, "not found")
			continue
		}
		ast.Inspect(fd.Body, func(m ast.Node) bool {
			ts, ok := m.(*ast.TypeSwitchStmt)
			if !ok {
				return true
			}
			for _, s := range ts.Body.List {
				cc := s.(*ast.CaseClause)
				if len(cc.List) != 1 || isNilIdent(cc.List[0]) {
					continue
				}
				k := numKindOf(info.TypeOf(cc.List[0]))
				if k == "" {
					continue
				}
				src := ""
				for _, st := range cc.Body {
					src += c.Src(st) + " "
				}
				var okc bool
				var want string
				switch k {
				case "int":
					want = "strconv.AppendInt(e.buf[:0], int64(v), 10)"
				case "*math/big.Int":
					want = "v.Append(e.buf[:0], 10)"
				case "encoding/json.Number":
					want = "v.String()"
				case "float64":
					want = "e.encodeFloat64(v)"
				}
				okc = strings.Contains(src, want)
				// the json.Number arm must not transform the text
				if k == "encoding/json.Number" {
					bad := callsFunc(c, info, cc, "json.Number.Float64", "json.Number.Int64", "gojq.parseNumber", "strconv.ParseFloat")
					okc = okc && bad == ""
				}
				r.Check(okc, p.Name+".encode:"+k, cc.Pos(), "%s encoder writes %s with `%s`: %v (arm: %s)", p.Name, k, want, okc, strings.TrimSpace(src))
			}
			return false
		})
	}
}

func ruleC10ParseErr(c *Ctx, r *Rep) {
	info := c.Gojq.TypesInfo
	fd := c.Decl(c.Gojq, "parseNumber")
	if fd == nil {
		r.Undecided("parseNumber", token.NoPos, "not found")
		return
	}
	n := 0
	ast.Inspect(fd.Body, func(m ast.Node) bool {
		as, ok := m.(*ast.AssignStmt)
		if !ok || len(as.Rhs) != 1 || len(as.Lhs) != 2 {
			return true
		}
		call, ok := unparen(as.Rhs[0]).(*ast.CallExpr)
		if !ok {
			return true
		}
		nm := calleeName(info, call)
		if nm == "" {
			return true
		}
		n++
		id, isID := as.Lhs[1].(*ast.Ident)
		discarded := isID && id.Name == "_"
		r.Check(!discarded, "parseNumber:"+nm, call.Pos(), "parseNumber uses the result of %s %s (strconv and json.Number parsers saturate or return 0 on failure: `len(s) <= 19 → Atoi` clamps 19-digit integers above MaxInt64)", nm, map[bool]string{true: "WITHOUT testing its error/ok flag", false: "only after testing its error/ok flag"}[discarded])
		return true
	})
	if n < 3 {
		r.Undecided("census", fd.Pos(), "only %d two-result parse calls found in parseNumber", n)
	}
}
