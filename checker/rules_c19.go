package main

import (
	"go/ast"
	"go/token"
	"go/types"
	"sort"
	"strings"

	"golang.org/x/tools/go/packages"
	"golang.org/x/tools/go/ssa"
)

func init() {
	regProp(&PropInfo{
		ID:    "C19",
		Title: "No ambient authority by default; each compile option grants exactly its own",
		Decided: "who can call what: every direct use of an ambient-authority symbol (os, os/exec, net, syscall, file-system functions of path/filepath and io/ioutil, time.Now/Local, runtime introspection, os/user, plugin) in package gojq lies in module_loader.go, funcNow or the two local-time natives, and no function of package gojq outside those reaches such a symbol through other packages' init-free call graph (R-C19-direct); " +
			"the file-system loader is constructed only by the exported NewModuleLoader and its methods are reached only through interface assertions on the option-set field (R-C19-loaderreach); the capability fields of the compiler are stored only by the option closures, and (*Query).Run compiles without options (R-C19-fields); " +
			"every use of a capability field, and every creation of the method values that use one, is dominated by a nil test whose nil edge returns an error or the empty default (R-C19-nilguard); a partially implemented loader yields errors (R-C08-dispatch); the two call sites that compile a custom function pass structurally identical arguments and append opiter iff the iterator flag (R-C19-custom); " +
			"RunWithContext rejects both variable-count mismatches before any env exists (R-C19-vars).",
		NotCovered: "behavioural equivalence of a Go callback and a jq definition under backtracking (under paths the structural half is decided: arguments are evaluated as values, R-C19-argvalues, and positional path bookkeeping is arity-guarded, R-C08-nativearity); argument evaluation order of custom functions; what the third-party timefmt package consults for %Z; data flow of capabilities granted deliberately by the embedding program.",
	})
	reg(&Rule{ID: "R-C19-direct", Props: []string{"C19"}, Floor: 8,
		Doc: "every direct use of an ambient-authority symbol in package gojq lies in the allowed set (module_loader.go, funcNow, funcLocaltime, funcStrflocaltime; debug.go under gojq_debug)",
		Run: ruleC19Direct})
	reg(&Rule{ID: "R-C19-loaderreach", Props: []string{"C19"}, Floor: 2,
		Doc: "moduleLoader values are built only in NewModuleLoader; its methods and the file-system helpers are statically called only from module_loader.go",
		Run: ruleC19LoaderReach})
	reg(&Rule{ID: "R-C19-fields", Props: []string{"C19"}, Floor: 6,
		Doc: "compiler.moduleLoader/environLoader/inputIter/customFuncs/variables are stored only by the With* option closures (variables also by compileFuncDef's save/restore); Compile starts from an empty compiler; Query.Run* passes no options",
		Run: ruleC19Fields})
	reg(&Rule{ID: "R-C19-nilguard", Props: []string{"C19"}, Floor: 6,
		Doc: "every use of a capability field and every creation of a method value that uses one is dominated by a nil test of that field",
		Run: ruleC19NilGuard})
	reg(&Rule{ID: "R-C19-custom", Props: []string{"C19"}, Floor: 2,
		Doc: "the customFuncs call site in compileFunc and the native call site in compileCall pass the same argument shape to compileCallInternal and append opiter iff the iter flag",
		Run: ruleC19Custom})
	reg(&Rule{ID: "R-C19-vars", Props: []string{"C19"}, Floor: 2,
		Doc: "RunWithContext compares len(values) with len(c.variables) in both directions and returns an error iterator before newEnv",
		Run: ruleC19Vars})
}

var ambientPkgs = map[string]bool{
	"os": true, "os/exec": true, "os/user": true, "os/signal": true, "net": true, "net/http": true, "net/url-never": false,
	"syscall": true, "io/ioutil": true, "plugin": true, "runtime/debug": true, "io/fs": true, "embed": false,
}

// ambientSymbol reports whether obj is an ambient-authority symbol.
func ambientSymbol(o types.Object) bool {
	if o == nil || o.Pkg() == nil {
		return false
	}
	pp := o.Pkg().Path()
	switch o.(type) {
	case *types.Func, *types.Var:
	default:
		return false // types, constants
	}
	if f, ok := o.(*types.Func); ok && f.Type().(*types.Signature).Recv() != nil {
		// methods on os.File etc. need a value obtained from a function; the function is what we police
		return false
	}
	if v, ok := o.(*types.Var); ok && v.IsField() {
		return false
	}
	switch pp {
	case "os":
		switch o.Name() {
		case "ErrNotExist", "ErrExist", "ErrPermission", "ErrInvalid", "ErrClosed", "IsNotExist", "IsExist", "IsPermission", "IsTimeout", "PathSeparator":
			return false
		}
		return true
	case "path/filepath":
		switch o.Name() {
		case "Abs", "EvalSymlinks", "Glob", "Walk", "WalkDir":
			return true
		}
		return false
	case "time":
		switch o.Name() {
		case "Now", "Local", "LoadLocation", "Since", "Until", "Sleep", "After", "Tick", "NewTimer", "NewTicker":
			return true
		}
		return false
	case "runtime":
		switch o.Name() {
		case "Caller", "Callers", "Stack", "GOROOT", "NumCPU", "NumGoroutine", "ReadMemStats":
			return true
		}
		return false
	case "math/rand", "math/rand/v2", "crypto/rand":
		return true
	}
	return ambientPkgs[pp]
}

// allowed direct uses: function → symbols (prefix match on "pkg.Name")
func ambientAllowed(c *Ctx, fnKey, file, sym string) (bool, string) {
	if file == "module_loader.go" {
		return true, "the file-system module loader (reachable only through WithModuleLoader, see R-C19-loaderreach)"
	}
	switch fnKey {
	case "funcNow":
		if sym == "time.Now" {
			return true, "`now` is documented as the one clock dependency"
		}
	case "funcLocaltime", "funcStrflocaltime":
		if sym == "time.Local" {
			return true, "local-time natives are documented as time-zone dependent"
		}
	}
	if file == "debug.go" && c.Cfg.Tags == "gojq_debug" {
		return true, "gojq_debug build only (not part of the default build)"
	}
	return false, ""
}

func ruleC19Direct(c *Ctx, r *Rep) {
	info := c.Gojq.TypesInfo
	type use struct {
		fn, file, sym string
		pos           token.Pos
	}
	var uses []use
	for id, o := range info.Uses {
		if !ambientSymbol(o) {
			continue
		}
		fd := c.EnclosingDecl(c.Gojq, id.Pos())
		fn := "<package level>"
		if fd != nil {
			fn = declKey(fd)
		}
		uses = append(uses, use{fn, c.PhysFile(id.Pos()), o.Pkg().Name() + "." + o.Name(), id.Pos()})
	}
	sort.Slice(uses, func(i, j int) bool { return uses[i].pos < uses[j].pos })
	for _, u := range uses {
		ok, why := ambientAllowed(c, u.fn, u.file, u.sym)
		if ok {
			r.OK(u.fn+":"+u.sym, u.pos, "%s used in %s: %s", u.sym, u.fn, why)
		} else {
			r.Bad(u.fn+":"+u.sym, u.pos, "ambient-authority symbol %s used in %s: a query compiled without options could observe the process environment, the file system, the clock or the network through it", u.sym, u.fn)
		}
	}
	// imports census: package gojq must not import packages that are capabilities in themselves
	for _, f := range c.Gojq.Syntax {
		file := c.PhysFile(f.Pos())
		for _, im := range f.Imports {
			p := strings.Trim(im.Path.Value, `"`)
			switch p {
			case "os/exec", "net", "net/http", "syscall", "plugin", "os/user", "os/signal", "unsafe", "C":
				r.Bad("import:"+file+":"+p, im.Pos(), "package gojq imports %s in %s", p, file)
			case "os", "path/filepath":
				allowed := file == "module_loader.go" || (file == "debug.go" && c.Cfg.Tags == "gojq_debug")
				r.Check(allowed, "import:"+file+":"+p, im.Pos(), "package gojq imports %s in %s (allowed only in module_loader.go)", p, file)
			}
		}
	}
	// transitive: functions of gojq outside the allowed set must not reach an ambient symbol through in-module callees
	// or through the module's own dependencies (standard-library internals are out of scope: e.g. time zone data)
	allowedFn := func(f *ssa.Function) bool {
		for f.Parent() != nil {
			f = f.Parent()
		}
		file := c.PhysFile(f.Pos())
		if file == "module_loader.go" || (file == "debug.go" && c.Cfg.Tags == "gojq_debug") {
			return true
		}
		switch topName(f) {
		case "funcNow", "funcLocaltime", "funcStrflocaltime":
			return true
		}
		return false
	}
	directUser := map[*ssa.Function]string{}
	for _, f := range c.PkgFuncs(c.Gojq) {
		for _, b := range f.Blocks {
			for _, in := range b.Instrs {
				for _, op := range in.Operands(nil) {
					if *op == nil {
						continue
					}
					switch v := (*op).(type) {
					case *ssa.Function:
						if v.Object() != nil && ambientSymbol(v.Object()) {
							directUser[f] = v.Object().Pkg().Name() + "." + v.Object().Name()
						}
					case *ssa.Global:
						if v.Object() != nil && ambientSymbol(v.Object()) {
							directUser[f] = v.Object().Pkg().Name() + "." + v.Object().Name()
						}
					}
				}
			}
		}
	}
	// the module's own (non-standard-library) dependencies are followed too: a formatting or parsing library that reads
	// time.Local or the environment on the library's behalf is the library's ambient authority (timefmt.Parse resolves
	// %Z against time.Local). The standard library's internals stay out of scope.
	depPkgs := map[string]bool{}
	packages.Visit([]*packages.Package{c.Gojq}, nil, func(dp *packages.Package) {
		if dp == c.Gojq || dp.Types == nil {
			return
		}
		first := dp.PkgPath
		if i := strings.Index(first, "/"); i >= 0 {
			first = first[:i]
		}
		if strings.Contains(first, ".") && !strings.HasPrefix(dp.PkgPath, "golang.org/x/") {
			depPkgs[dp.PkgPath] = true
			for _, f := range c.PkgFuncs(dp) {
				for _, b := range f.Blocks {
					for _, in := range b.Instrs {
						for _, op := range in.Operands(nil) {
							if *op == nil {
								continue
							}
							switch v := (*op).(type) {
							case *ssa.Function:
								if v.Object() != nil && ambientSymbol(v.Object()) {
									directUser[f] = v.Object().Pkg().Name() + "." + v.Object().Name()
								}
							case *ssa.Global:
								if v.Object() != nil && ambientSymbol(v.Object()) {
									directUser[f] = v.Object().Pkg().Name() + "." + v.Object().Name()
								}
							}
						}
					}
				}
			}
		}
	})
	// static call edges only (dynamic edges are capability grants: loaders, callbacks, iterators)
	bad := 0
	for _, f := range c.PkgFuncs(c.Gojq) {
		if allowedFn(f) {
			continue
		}
		seen := map[*ssa.Function]bool{f: true}
		stack := []*ssa.Function{f}
		for len(stack) > 0 {
			g := stack[len(stack)-1]
			stack = stack[:len(stack)-1]
			inDep := g.Pkg != nil && depPkgs[g.Pkg.Pkg.Path()]
			if sym, ok := directUser[g]; ok && !allowedFn(g) && !inDep {
				continue // reported as a direct use above
			} else if ok && g != f {
				bad++
				r.Bad("reach:"+fnDisplay(f)+"→"+fnDisplay(g), f.Pos(), "%s statically calls into %s, which uses %s", fnDisplay(f), fnDisplay(g), sym)
			}
			for _, b := range g.Blocks {
				for _, in := range b.Instrs {
					if ci, ok := in.(ssa.CallInstruction); ok {
						if sc := ci.Common().StaticCallee(); sc != nil && sc.Pkg != nil && (sc.Pkg.Pkg.Path() == pathGojq || depPkgs[sc.Pkg.Pkg.Path()]) && !seen[sc] {
							seen[sc] = true
							stack = append(stack, sc)
						}
					}
				}
			}
		}
	}
	r.Check(bad == 0, "static-reach", token.NoPos, "no function of package gojq outside the allowed set statically calls into one that uses an ambient symbol (%d functions with direct uses)", len(directUser))
}

func ruleC19LoaderReach(c *Ctx, r *Rep) {
	info := c.Gojq.TypesInfo
	n := 0
	for _, fd := range c.Decls(c.Gojq) {
		ast.Inspect(fd.Body, func(m ast.Node) bool {
			switch x := m.(type) {
			case *ast.CompositeLit:
				if isNamed(info.TypeOf(x), pathGojq, "moduleLoader") {
					n++
					r.Check(declKey(fd) == "NewModuleLoader", "construct@"+declKey(fd), x.Pos(), "moduleLoader value constructed in %s (allowed only in the exported NewModuleLoader, which the embedding program must call)", declKey(fd))
				}
			case *ast.CallExpr:
				o := callee(info, x)
				f, ok := o.(*types.Func)
				if !ok || f.Pkg() == nil || f.Pkg().Path() != pathGojq {
					return true
				}
				target := c.PhysFile(f.Pos())
				if target != "module_loader.go" {
					return true
				}
				n++
				from := c.PhysFile(x.Pos())
				okc := from == "module_loader.go"
				r.Check(okc, "call:"+declKey(fd)+"→"+f.Name(), x.Pos(), "static call from %s (%s) to %s of module_loader.go (the loader's methods must be reached only through interface assertions on compiler.moduleLoader)", declKey(fd), from, f.Name())
			}
			return true
		})
	}
	if n == 0 {
		r.Undecided("moduleLoader", token.NoPos, "no construction or call found")
	}
}

var capFields = []string{"moduleLoader", "environLoader", "inputIter", "customFuncs", "variables"}

func ruleC19Fields(c *Ctx, r *Rep) {
	info := c.Gojq.TypesInfo
	allowed := map[string]map[string]bool{
		"moduleLoader":  {"WithModuleLoader": true},
		"environLoader": {"WithEnvironLoader": true},
		"inputIter":     {"WithInputIter": true},
		"customFuncs":   {"withFunction": true},
		"variables":     {"WithVariables": true, "compiler.compileFuncDef": true},
	}
	seen := map[string]int{}
	for _, fd := range c.Decls(c.Gojq) {
		ast.Inspect(fd.Body, func(m ast.Node) bool {
			var lhs []ast.Expr
			switch x := m.(type) {
			case *ast.AssignStmt:
				lhs = x.Lhs
			case *ast.IncDecStmt:
				lhs = []ast.Expr{x.X}
			}
			for _, l := range lhs {
				// c.F = …   or   c.F[k] = …
				base := unparen(l)
				if ix, ok := base.(*ast.IndexExpr); ok {
					base = unparen(ix.X)
				}
				f, ok := selectorOn(info, base, "compiler")
				if !ok {
					continue
				}
				set, isCap := allowed[f]
				if !isCap {
					continue
				}
				seen[f]++
				r.Check(set[declKey(fd)], "store:"+f+"@"+declKey(fd), l.Pos(), "compiler.%s stored in %s (allowed: %v)", f, declKey(fd), keysOf(set))
			}
			// composite literals of compiler must not set capability fields
			if cl, ok := m.(*ast.CompositeLit); ok && isNamed(info.TypeOf(cl), pathGojq, "compiler") {
				okc := true
				for _, el := range cl.Elts {
					if kv, ok := el.(*ast.KeyValueExpr); ok {
						if _, isCap := allowed[kv.Key.(*ast.Ident).Name]; isCap {
							okc = false
						}
					} else {
						okc = false
					}
				}
				r.Check(okc, "literal@"+declKey(fd), cl.Pos(), "compiler literal in %s sets no capability field", declKey(fd))
			}
			return true
		})
	}
	for _, f := range capFields {
		if seen[f] == 0 {
			r.Undecided("store:"+f, token.NoPos, "no store to compiler.%s found (option missing?)", f)
		}
	}
	// Query.Run*/RunWithContext compile without options
	for _, k := range []string{"Query.RunWithContext", "Query.Run"} {
		fd := c.Decl(c.Gojq, k)
		if fd == nil {
			continue
		}
		ast.Inspect(fd.Body, func(m ast.Node) bool {
			if call, ok := m.(*ast.CallExpr); ok && calleeName(info, call) == "gojq.Compile" {
				r.Check(len(call.Args) == 1 && !call.Ellipsis.IsValid(), k+":Compile", call.Pos(), "%s calls Compile with %d argument(s) (must pass the query only: no ambient options)", k, len(call.Args))
			}
			return true
		})
	}
}

func keysOf(m map[string]bool) []string {
	var out []string
	for k := range m {
		out = append(out, k)
	}
	sort.Strings(out)
	return out
}

// nilGuarded: pos is inside `if <recv>.F != nil {…}` or after a top-level `if <recv>.F == nil { …return }` in fd.
func nilGuarded(c *Ctx, info *types.Info, fd *ast.FuncDecl, pos token.Pos, field string) bool {
	isFieldNilCmp := func(e ast.Expr, op token.Token) bool {
		be, ok := unparen(e).(*ast.BinaryExpr)
		if !ok || be.Op != op {
			return false
		}
		f, ok := selectorOn(info, be.X, "compiler")
		return ok && f == field && isNilIdent(be.Y)
	}
	guarded := false
	walkStack(fd.Body, func(n ast.Node, stack []ast.Node) bool {
		if n.Pos() <= pos && pos < n.End() {
			if ifs, ok := n.(*ast.IfStmt); ok && isFieldNilCmp(ifs.Cond, token.NEQ) && ifs.Body.Pos() <= pos && pos < ifs.Body.End() {
				guarded = true
			}
			// preceding statements in any enclosing statement list
			var list []ast.Stmt
			switch x := n.(type) {
			case *ast.BlockStmt:
				list = x.List
			case *ast.CaseClause:
				list = x.Body
			}
			for _, s := range list {
				if s.End() > pos {
					break
				}
				if ifs, ok := s.(*ast.IfStmt); ok && isFieldNilCmp(ifs.Cond, token.EQL) && endsInReturn(ifs.Body) {
					guarded = true
				}
			}
			return true
		}
		return false
	})
	return guarded
}

func ruleC19NilGuard(c *Ctx, r *Rep) {
	info := c.Gojq.TypesInfo
	// methods whose body uses a capability field unguarded: their method-value creation sites must be guarded instead
	deferredTo := map[string]string{} // method name → field
	for _, field := range []string{"moduleLoader", "environLoader", "inputIter"} {
		for _, fd := range c.Decls(c.Gojq) {
			ast.Inspect(fd.Body, func(m ast.Node) bool {
				sel, ok := m.(*ast.SelectorExpr)
				if !ok {
					return true
				}
				f, ok := selectorOn(info, sel, "compiler")
				if !ok || f != field {
					return true
				}
				// classify the use
				use := "read"
				walkStack(fd.Body, func(n ast.Node, stack []ast.Node) bool {
					if n == ast.Node(sel) && len(stack) > 0 {
						switch p := stack[len(stack)-1].(type) {
						case *ast.AssignStmt:
							for _, l := range p.Lhs {
								if l == ast.Expr(sel) {
									use = "store"
								}
							}
						case *ast.BinaryExpr:
							if isNilIdent(p.Y) || isNilIdent(p.X) {
								use = "niltest"
							}
						}
					}
					return true
				})
				if use != "read" {
					return true
				}
				key := declKey(fd) + ":" + field
				if nilGuarded(c, info, fd, sel.Pos(), field) {
					r.OK(key, sel.Pos(), "use of compiler.%s in %s is dominated by a nil test", field, declKey(fd))
				} else if fd.Recv != nil && recvTypeName(fd) == "compiler" && strings.HasPrefix(fd.Name.Name, "func") {
					deferredTo[fd.Name.Name] = field
					r.Info(key, sel.Pos(), "use of compiler.%s in the native %s is guarded at the creation of its method value (checked below)", field, declKey(fd))
				} else {
					r.Bad(key, sel.Pos(), "compiler.%s is used in %s without a dominating nil test: without the option the capability must be absent (an error or the empty default), not a nil dereference or an implicit grant", field, declKey(fd))
				}
				return true
			})
		}
	}
	for m, field := range deferredTo {
		n := 0
		for _, fd := range c.Decls(c.Gojq) {
			ast.Inspect(fd.Body, func(x ast.Node) bool {
				sel, ok := x.(*ast.SelectorExpr)
				if !ok || sel.Sel.Name != m {
					return true
				}
				if s, ok := info.Selections[sel]; !ok || s.Kind() != types.MethodVal || !isNamed(s.Recv(), pathGojq, "compiler") {
					return true
				}
				n++
				g := nilGuarded(c, info, fd, sel.Pos(), field)
				r.Check(g, "methodvalue:"+m+"@"+declKey(fd), sel.Pos(), "method value c.%s (uses compiler.%s) created in %s under a nil test of the field: %v", m, field, declKey(fd), g)
				return true
			})
		}
		if n == 0 {
			r.Undecided("methodvalue:"+m, token.NoPos, "no creation site of c.%s found", m)
		}
	}
}

func ruleC19Custom(c *Ctx, r *Rep) {
	info := c.Gojq.TypesInfo
	type site struct {
		fn    string
		call  *ast.CallExpr
		shape string
		iter  bool
	}
	var sites []site
	shapeOf := func(call *ast.CallExpr) string {
		if len(call.Args) != 4 {
			return "?"
		}
		var parts []string
		if cl, ok := unparen(call.Args[0]).(*ast.CompositeLit); ok && len(cl.Elts) == 3 {
			// [3]any{X.callback, len(A), N}
			e0 := "?"
			if sel, ok := unparen(cl.Elts[0]).(*ast.SelectorExpr); ok && sel.Sel.Name == "callback" {
				e0 = "FN.callback"
			}
			e1 := "?"
			if lc, ok := unparen(cl.Elts[1]).(*ast.CallExpr); ok {
				if id, ok := lc.Fun.(*ast.Ident); ok && id.Name == "len" && len(lc.Args) == 1 && sameExprShape(info, lc.Args[0], call.Args[1]) {
					e1 = "len(ARGS)"
				}
			}
			e2 := "?"
			if t := info.TypeOf(cl.Elts[2]); t != nil && t.String() == "string" {
				e2 = "NAME"
			}
			parts = append(parts, "[3]any{"+e0+","+e1+","+e2+"}")
		} else {
			parts = append(parts, "?")
		}
		parts = append(parts, "ARGS")
		if tv, ok := info.Types[call.Args[2]]; ok && tv.Value != nil {
			parts = append(parts, tv.Value.String())
		} else {
			parts = append(parts, "?")
		}
		return strings.Join(parts, ";")
	}
	for _, key := range []string{"compiler.compileFunc", "compiler.compileCall"} {
		fd := c.Decl(c.Gojq, key)
		if fd == nil {
			r.Undecided(key, token.NoPos, "not found")
			return
		}
		ast.Inspect(fd.Body, func(m ast.Node) bool {
			call, ok := m.(*ast.CallExpr)
			if !ok || calleeName(info, call) != "gojq.compiler.compileCallInternal" || len(call.Args) != 4 {
				return true
			}
			cl, ok := unparen(call.Args[0]).(*ast.CompositeLit)
			if !ok || len(cl.Elts) != 3 {
				return true
			}
			sel, ok := unparen(cl.Elts[0]).(*ast.SelectorExpr)
			if !ok || sel.Sel.Name != "callback" {
				return true
			}
			// followed by `if FN.iter { c.append(&code{op: opiter}) }` in the same function
			iter := false
			ast.Inspect(fd.Body, func(k ast.Node) bool {
				ifs, ok := k.(*ast.IfStmt)
				if !ok || ifs.Pos() < call.End() {
					return true
				}
				if s2, ok := unparen(ifs.Cond).(*ast.SelectorExpr); ok && s2.Sel.Name == "iter" && sameObj(info, s2.X, sel.X) {
					for _, e := range getEmits(c) {
						if e.Op == "opiter" && e.Lit.Pos() >= ifs.Body.Pos() && e.Lit.End() <= ifs.Body.End() {
							iter = true
						}
					}
				}
				return true
			})
			sites = append(sites, site{key, call, shapeOf(call), iter})
			return true
		})
	}
	if len(sites) != 2 {
		r.Undecided("sites", token.NoPos, "expected one FN.callback call site in compileFunc (customFuncs) and one in compileCall, found %d", len(sites))
		return
	}
	for _, s := range sites {
		r.Check(!strings.Contains(s.shape, "?") && s.iter, "site:"+s.fn, s.call.Pos(), "%s passes %s to compileCallInternal and appends opiter iff FN.iter: %v", s.fn, s.shape, s.iter)
	}
	r.Check(sites[0].shape == sites[1].shape, "agree", sites[0].call.Pos(), "both sites pass the same argument shape (%s | %s): a Go callback is compiled exactly like a native", sites[0].shape, sites[1].shape)
}

func ruleC19Vars(c *Ctx, r *Rep) {
	info := c.Gojq.TypesInfo
	fd := c.Decl(c.Gojq, "Code.RunWithContext")
	if fd == nil {
		r.Undecided("Code.RunWithContext", token.NoPos, "not found")
		return
	}
	var gt, lt bool
	var envPos token.Pos
	ast.Inspect(fd.Body, func(m ast.Node) bool {
		if call, ok := m.(*ast.CallExpr); ok && calleeName(info, call) == "gojq.newEnv" {
			envPos = call.Pos()
		}
		ifs, ok := m.(*ast.IfStmt)
		if !ok {
			return true
		}
		be, ok := unparen(ifs.Cond).(*ast.BinaryExpr)
		if !ok {
			return true
		}
		isLen := func(e ast.Expr, what string) bool {
			call, ok := unparen(e).(*ast.CallExpr)
			if !ok || len(call.Args) != 1 {
				return false
			}
			if id, ok := call.Fun.(*ast.Ident); !ok || id.Name != "len" {
				return false
			}
			if what == "variables" {
				f, ok := selectorOn(info, call.Args[0], "Code")
				return ok && f == "variables"
			}
			id, ok := unparen(call.Args[0]).(*ast.Ident)
			if !ok {
				return false
			}
			_, isParam := info.Uses[id].(*types.Var)
			return isParam && strings.HasPrefix(info.TypeOf(id).String(), "[]")
		}
		if !(isLen(be.X, "values") && isLen(be.Y, "variables")) || !endsInReturn(ifs.Body) {
			return true
		}
		switch be.Op {
		case token.GTR:
			gt = true
		case token.LSS:
			lt = true
		case token.NEQ:
			gt, lt = true, true
		}
		return true
	})
	r.Check(gt, "too-many", fd.Pos(), "len(values) > len(c.variables) returns before an env exists: %v", gt)
	r.Check(lt, "too-few", fd.Pos(), "len(values) < len(c.variables) returns before an env exists: %v", lt)
	if !envPos.IsValid() {
		r.Undecided("newEnv", fd.Pos(), "no newEnv call in RunWithContext")
	}
}

func init() {
	reg(&Rule{ID: "R-C19-optionpure", Props: []string{"C19", "C06"}, Floor: 5,
		Doc: "the closures returned by the With* options write only into the compiler they are given: no store through a captured variable (an option value is reusable across compilations and must grant the same thing each time)",
		Run: ruleC19OptionPure})
	reg(&Rule{ID: "R-C19-varstore", Props: []string{"C19"}, Floor: 1,
		Doc: "Compile emits exactly one opstore per declared variable: the emission is unconditional in the loop over c.variables (Run pushes one value per name)",
		Run: ruleC19VarStore})
	reg(&Rule{ID: "R-C19-envsingle", Props: []string{"C19"}, Floor: 1,
		Doc: "the environment object is built at exactly one site (one call of c.environLoader): env, $ENV and every index of them see the same object",
		Run: ruleC19EnvSingle})
}

func ruleC19OptionPure(c *Ctx, r *Rep) {
	n := 0
	for _, f := range c.PkgFuncs(c.Gojq) {
		if f.Parent() == nil || c.PhysFile(f.Pos()) != "option.go" {
			continue
		}
		// closures whose first parameter is *compiler: the option bodies
		if len(f.Params) != 1 || !isNamed(f.Params[0].Type(), pathGojq, "compiler") {
			continue
		}
		n++
		bad := ""
		for _, b := range f.Blocks {
			for _, in := range b.Instrs {
				if st, ok := in.(*ssa.Store); ok {
					root, _, _ := addrRoot(st.Addr)
					if fv, ok := root.(*ssa.FreeVar); ok {
						bad = "store through captured variable " + fv.Name() + " at " + c.Pos(instrPos(in))
					}
				}
				if mu, ok := in.(*ssa.MapUpdate); ok {
					root, _, _ := addrRoot(mu.Map)
					if fv, ok := root.(*ssa.FreeVar); ok {
						bad = "map update through captured variable " + fv.Name()
					}
				}
			}
		}
		r.Check(bad == "", "option:"+fnDisplay(f), f.Pos(), "option closure %s writes only into its compiler argument%s", fnDisplay(f), map[bool]string{true: "", false: ": " + bad + " — the option value then remembers what an earlier Compile merged into it (reusing WithFunction(\"f\",1,1,…) later also grants the arities it was once merged with)"}[bad == ""])
	}
	if n < 5 {
		r.Undecided("census", token.NoPos, "only %d option closures found in option.go", n)
	}
}

func ruleC19VarStore(c *Ctx, r *Rep) {
	info := c.Gojq.TypesInfo
	fd := c.Decl(c.Gojq, "Compile")
	if fd == nil {
		r.Undecided("Compile", token.NoPos, "not found")
		return
	}
	var loop *ast.RangeStmt
	ast.Inspect(fd.Body, func(m ast.Node) bool {
		if rs, ok := m.(*ast.RangeStmt); ok {
			if f, ok := selectorOn(info, rs.X, "compiler"); ok && f == "variables" {
				loop = rs
			}
		}
		return true
	})
	if loop == nil {
		r.Undecided("Compile:variables", fd.Pos(), "loop over c.variables not found")
		return
	}
	// the opstore emission is a direct statement of the loop body, and the only other exits are error returns
	direct := false
	for _, e := range getEmits(c) {
		if e.Fn == fd && e.Op == "opstore" && loop.Body.Pos() <= e.Lit.Pos() && e.Lit.End() <= loop.Body.End() {
			for _, s := range loop.Body.List {
				if s.Pos() <= e.Lit.Pos() && e.Lit.End() <= s.End() {
					if _, ok := s.(*ast.ExprStmt); ok {
						direct = true
					}
				}
			}
		}
	}
	skips := ""
	ast.Inspect(loop.Body, func(m ast.Node) bool {
		if b, ok := m.(*ast.BranchStmt); ok && (b.Tok == token.CONTINUE || b.Tok == token.BREAK) {
			skips = b.Tok.String() + " at " + c.Pos(b.Pos())
		}
		return true
	})
	r.Check(direct && skips == "", "Compile:one-store-per-variable", loop.Pos(), "the loop over c.variables emits its opstore unconditionally (direct statement: %v, skipping branch: %q): RunWithContext checks the count and execute pushes one value per name, so a skipped store leaves a value on the stack and shifts every later binding and the input itself", direct, skips)
}

func ruleC19EnvSingle(c *Ctx, r *Rep) {
	info := c.Gojq.TypesInfo
	n := 0
	var where []string
	for _, fd := range c.Decls(c.Gojq) {
		ast.Inspect(fd.Body, func(m ast.Node) bool {
			call, ok := m.(*ast.CallExpr)
			if !ok {
				return true
			}
			if f, ok := selectorOn(info, call.Fun, "compiler"); ok && f == "environLoader" {
				n++
				where = append(where, declKey(fd))
			}
			return true
		})
	}
	r.Check(n == 1, "environLoader:calls", token.NoPos, "c.environLoader() is called at %d site(s) %v (exactly one: a second builder of the environment object is a sibling that can disagree on duplicates and empty names)", n, where)
}
