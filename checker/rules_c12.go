package main

import (
	"go/ast"
	"go/token"
	"go/types"
	"strings"

	"golang.org/x/tools/go/packages"
)

func init() {
	regProp(&PropInfo{
		ID:    "C12",
		Title: "Every emitted value serialises to valid JSON that reads back equal",
		Decided: "the library encoder and the command's encoder, two hand-maintained copies, are the same function modulo decoration: encode's type switch, encodeFloat64, encodeString (pass-through predicate, escape table, \\u00XX fallback, U+FFFD for invalid UTF-8), encodeArray and encodeObject normalise to identical statement sequences once colour, indentation and flushing are removed (R-C12-sib); the removed statements write only bytes from {space, tab, newline}, SGR sequences built by newColor (ESC [ … m), or flush (R-C12-decor); " +
			"inside each package all JSON text comes from that package's encoder: tojson/tostring/@json/@text/join/previews reach (*encoder).encode, and there is no encoding/json marshalling or fmt formatting of JSON values (R-C12-single); both encode switches cover the nine supported dynamic types (R-C12-enum); object keys are emitted in native string order (R-C11-keys).",
		NotCovered: "validity of the produced text as such (the escape table's correctness is value-level; what is decided is that both copies agree and nothing else produces JSON); the indentation arithmetic (block-doubling writer, depth x unit) and the 8 KiB flush threshold; YAML output and input beyond what reaches the third-party encoder (no *big.Int, no Go map, no unquoted string starting with a tab, no bare SetString: R-C12-yamlbig, R-C11-yamlkeys, R-C12-yamltab, R-C12-yamlsetstring) and what leaves the decoder (number spellings: R-C10-foreignnumber); tojson|fromjson as an inverse.",
	})
	reg(&Rule{ID: "R-C12-sib", Props: []string{"C12", "C10", "C13"}, Floor: 5,
		Doc: "encode, encodeFloat64, encodeString, encodeArray, encodeObject of encoder.go and cli/encoder.go normalise to identical bodies modulo colour/indent/flush",
		Run: ruleC12Sib})
	reg(&Rule{ID: "R-C12-decor", Props: []string{"C12"}, Floor: 8,
		Doc: "statements of cli/encoder.go removed as decoration write only whitespace constants, newColor-built SGR sequences, or flush",
		Run: ruleC12Decor})
	reg(&Rule{ID: "R-C12-single", Props: []string{"C12", "C13"}, Floor: 6,
		Doc: "JSON text is produced only by the package's own encoder: no json.Marshal/NewEncoder, no fmt/strconv formatting of JSON values outside the encoders",
		Run: ruleC12Single})
	reg(&Rule{ID: "R-C12-enum", Props: []string{"C12", "C08"}, Floor: 2,
		Doc: "both encode type switches list nil, bool, int, float64, *big.Int, json.Number, string, []any, map[string]any",
		Run: ruleC12Enum})
	reg(&Rule{ID: "R-C01-stacksib", Props: []string{"C01", "C20"}, Floor: 5,
		Doc: "stack.{push,pop,empty,save,restore} and scopeStack.{…} are identical modulo element type",
		Run: ruleC01StackSib})
}

func isFieldOf(info *types.Info, e ast.Expr, pkgPath, typ, field string) bool {
	sel, ok := unparen(e).(*ast.SelectorExpr)
	return ok && sel.Sel.Name == field && isNamed(info.TypeOf(sel.X), pkgPath, typ)
}

func libEncoderOpts(c *Ctx) *sibOpts {
	return &sibOpts{pkg: c.Gojq,
		isEmit: func(info *types.Info, call *ast.CallExpr) (ast.Expr, bool) {
			sel, ok := call.Fun.(*ast.SelectorExpr)
			if !ok || len(call.Args) != 1 {
				return nil, false
			}
			if (sel.Sel.Name == "WriteString" || sel.Sel.Name == "Write" || sel.Sel.Name == "WriteByte") && isFieldOf(info, sel.X, pathGojq, "encoder", "w") {
				return call.Args[0], true
			}
			return nil, false
		},
	}
}

func cliEncoderOpts(c *Ctx) *sibOpts {
	isColor := func(info *types.Info, e ast.Expr) bool {
		id, ok := unparen(e).(*ast.Ident)
		if !ok {
			return false
		}
		t := info.TypeOf(id)
		return t != nil && t.String() == "[]byte" && (id.Name == "color" || strings.HasSuffix(id.Name, "Color"))
	}
	return &sibOpts{pkg: c.Cli,
		isEmit: func(info *types.Info, call *ast.CallExpr) (ast.Expr, bool) {
			sel, ok := call.Fun.(*ast.SelectorExpr)
			if !ok {
				return nil, false
			}
			if len(call.Args) == 1 && (sel.Sel.Name == "WriteString" || sel.Sel.Name == "Write" || sel.Sel.Name == "WriteByte") && isFieldOf(info, sel.X, pathCli, "encoder", "w") {
				return call.Args[0], true
			}
			if len(call.Args) == 2 && (sel.Sel.Name == "write" || sel.Sel.Name == "writeByte") && isNamed(info.TypeOf(sel.X), pathCli, "encoder") && isColor(info, call.Args[1]) {
				return call.Args[0], true
			}
			return nil, false
		},
		isDecorCond: func(info *types.Info, cond ast.Expr) bool {
			return mentions(cond, func(e ast.Expr) bool {
				if isFieldOf(info, e, pathCli, "encoder", "indent") {
					return true
				}
				if id, ok := e.(*ast.Ident); ok && id.Name == "color" && info.TypeOf(id) != nil && info.TypeOf(id).String() == "[]byte" {
					return true
				}
				if call, ok := e.(*ast.CallExpr); ok {
					if sel, ok := call.Fun.(*ast.SelectorExpr); ok && sel.Sel.Name == "Len" && isFieldOf(info, sel.X, pathCli, "encoder", "w") {
						return true
					}
				}
				return false
			})
		},
		isDecorCall: func(info *types.Info, call *ast.CallExpr) bool {
			switch calleeName(info, call) {
			case "cli.setColor", "cli.encoder.writeIndent", "cli.encoder.flush":
				return true
			}
			return false
		},
		isDecorAssign: func(info *types.Info, lhs ast.Expr) bool {
			return isFieldOf(info, lhs, pathCli, "encoder", "depth")
		},
		dropArg: isColor,
	}
}

var encoderSiblings = []string{"encode", "encodeFloat64", "encodeString", "encodeArray", "encodeObject"}

func ruleC12Sib(c *Ctx, r *Rep) {
	for _, fn := range encoderSiblings {
		a, b := c.Decl(c.Gojq, "encoder."+fn), c.Decl(c.Cli, "encoder."+fn)
		if a == nil || b == nil {
			r.Undecided("encoder."+fn, token.NoPos, "sibling not found (lib %v, cli %v)", a != nil, b != nil)
			continue
		}
		na := sibNormalise(c, a, libEncoderOpts(c))
		nb := sibNormalise(c, b, cliEncoderOpts(c))
		d := sibDiff(na, nb)
		r.Check(d == "", "encoder."+fn, b.Pos(), "encoder.go and cli/encoder.go %s %s (%d normalised lines)%s", fn,
			map[bool]string{true: "agree modulo colour, indentation and flushing", false: "DIVERGE"}[d == ""], len(na),
			map[bool]string{true: "", false: " — first difference (library vs command) at " + d + ": a fix or fast path applied to one copy only makes the output modes disagree"}[d == ""])
	}
}

func ruleC12Decor(c *Ctx, r *Rep) {
	info := c.Cli.TypesInfo
	wsConst := func(e ast.Expr) (string, bool) {
		e = unparen(e)
		if call, ok := e.(*ast.CallExpr); ok && len(call.Args) == 1 {
			if _, ok := call.Fun.(*ast.ArrayType); ok {
				e = call.Args[0]
			}
		}
		var s string
		if v, ok := constString(info, e); ok {
			s = v
		} else if v, ok := constInt(info, e); ok && v >= 0 && v < 256 {
			s = string(rune(v))
		} else {
			return "", false
		}
		for _, ch := range s {
			if ch != ' ' && ch != '\t' && ch != '\n' {
				return s, false
			}
		}
		return s, true
	}
	for _, fn := range encoderSiblings {
		fd := c.Decl(c.Cli, "encoder."+fn)
		if fd == nil {
			continue
		}
		o := cliEncoderOpts(c)
		sibNormalise(c, fd, o)
		for _, d := range o.Dropped {
			okc := true
			why := ""
			ast.Inspect(d, func(m ast.Node) bool {
				call, ok := m.(*ast.CallExpr)
				if !ok {
					return true
				}
				if b, isE := o.isEmit(info, call); isE {
					if s, ok := wsConst(b); !ok {
						okc = false
						why = "emits " + c.Src(b) + " (" + s + ")"
					}
					return false
				}
				switch calleeName(info, call) {
				case "cli.setColor", "cli.encoder.writeIndent", "cli.encoder.flush", "bytes.Buffer.Len":
				default:
					if calleeName(info, call) != "" || true {
						if id, ok := call.Fun.(*ast.Ident); ok && (id.Name == "len") {
							return true
						}
						okc = false
						why = "calls " + c.Src(call.Fun)
					}
				}
				return true
			})
			r.Check(okc, "dropped:"+fn+":"+firstWords(c.Src(d), 6), d.Pos(), "decoration statement of encoder.%s writes only whitespace constants / SGR / flush: %v %s", fn, okc, why)
		}
	}
	// writeIndent / writeIndentInternal: newline, constant blank strings, or a copy of the buffer's own tail taken in the same expression
	for _, fn := range []string{"writeIndent", "writeIndentInternal"} {
		fd := c.Decl(c.Cli, "encoder."+fn)
		if fd == nil {
			r.Undecided("encoder."+fn, token.NoPos, "not found")
			continue
		}
		o := cliEncoderOpts(c)
		ast.Inspect(fd.Body, func(m ast.Node) bool {
			call, ok := m.(*ast.CallExpr)
			if !ok {
				return true
			}
			// arguments of writeIndentInternal must be blank constants
			if calleeName(info, call) == "cli.encoder.writeIndentInternal" && len(call.Args) == 2 {
				_, ok := wsConst(call.Args[1])
				r.Check(ok, fn+":blank-arg", call.Pos(), "writeIndentInternal is given a constant string of blanks: %v", ok)
				return true
			}
			b, isE := o.isEmit(info, call)
			if !isE {
				return true
			}
			if _, ok := wsConst(b); ok {
				r.OK(fn+":emit "+c.Src(b), call.Pos(), "whitespace constant")
				return true
			}
			src := c.Src(b)
			// spaces / spaces[:n]: the blank parameter
			base := unparen(b)
			if se, ok := base.(*ast.SliceExpr); ok {
				base = unparen(se.X)
			}
			if id, ok := base.(*ast.Ident); ok {
				if v, ok := info.Uses[id].(*types.Var); ok && v.Type().String() == "string" && id.Name == "spaces" {
					r.OK(fn+":emit "+src, call.Pos(), "(a prefix of) the blank-string parameter")
					return true
				}
			}
			// e.w.Bytes()[e.w.Len()-l:] taken inside the emit expression itself
			if se, ok := unparen(b).(*ast.SliceExpr); ok {
				if bc, ok := unparen(se.X).(*ast.CallExpr); ok {
					if sel, ok := bc.Fun.(*ast.SelectorExpr); ok && sel.Sel.Name == "Bytes" && isFieldOf(info, sel.X, pathCli, "encoder", "w") {
						r.OK(fn+":emit tail", call.Pos(), "copies the tail of the output buffer, read in the same expression (the bytes just written are blanks)")
						return true
					}
				}
			}
			r.Bad(fn+":emit "+src, call.Pos(), "indentation writes %s: neither a blank constant nor the buffer's own tail read in place (a slice of the buffer taken earlier goes stale when the buffer grows or is flushed, and earlier output is copied into the indentation)", src)
			return true
		})
	}
	// colours: every []byte colour variable is built by newColor or is nil; newColor wraps ESC [ … m
	nc := c.Decl(c.Cli, "newColor")
	okNC := false
	if nc != nil && len(nc.Body.List) == 1 {
		s := c.Src(nc.Body.List[0])
		okNC = strings.Contains(s, `"\x1b["`) && strings.HasSuffix(strings.TrimSpace(s), `+ "m")`)
	}
	r.Check(okNC, "newColor", token.NoPos, "newColor builds ESC [ <params> m: %v (removable as an SGR sequence)", okNC)
	for _, f := range c.Cli.Syntax {
		if c.PhysFile(f.Pos()) != "color.go" {
			continue
		}
		ast.Inspect(f, func(m ast.Node) bool {
			switch x := m.(type) {
			case *ast.ValueSpec:
				for i, nm := range x.Names {
					if !strings.HasSuffix(nm.Name, "Color") || i >= len(x.Values) {
						continue
					}
					v := c.Src(x.Values[i])
					ok := strings.HasPrefix(v, "newColor(") || v == "[]byte(nil)"
					r.Check(ok, "colour:"+nm.Name, nm.Pos(), "%s = %s", nm.Name, v)
				}
			case *ast.AssignStmt:
				for i, l := range x.Lhs {
					if st, ok := l.(*ast.StarExpr); ok && i < len(x.Rhs) {
						if id, ok := st.X.(*ast.Ident); ok && id.Name == "target" {
							v := c.Src(x.Rhs[i])
							ok := strings.HasPrefix(v, "newColor(") || v == "nil"
							r.Check(ok, "colour:setColors", x.Pos(), "setColors assigns %s", v)
						}
					}
				}
			}
			return true
		})
	}
	// validColor admits digits and ';' only (checked structurally: every accepting branch tests '0'..'9' or ';')
	if vc := c.Decl(c.Cli, "validColor"); vc != nil {
		lits := map[string]bool{}
		ast.Inspect(vc.Body, func(m ast.Node) bool {
			if bl, ok := m.(*ast.BasicLit); ok && bl.Kind == token.CHAR {
				lits[bl.Value] = true
			}
			return true
		})
		ok := len(lits) == 3 && lits[`'0'`] && lits[`'9'`] && lits[`';'`]
		r.Check(ok, "validColor", vc.Pos(), "validColor compares only against '0', '9' and ';' (%v): user colours cannot smuggle other bytes into the output", keysOf(lits))
	}
}

func firstWords(s string, n int) string {
	f := strings.Fields(s)
	if len(f) > n {
		f = f[:n]
	}
	return strings.Join(f, " ")
}

func ruleC12Single(c *Ctx, r *Rep) {
	// 1. no encoding/json marshalling, json.NewEncoder, or fmt formatting with %v of JSON values
	for _, p := range []*packages.Package{c.Gojq, c.Cli} {
		info := p.TypesInfo
		for _, fd := range c.Decls(p) {
			if c.PhysFile(fd.Pos()) == "parser.go" {
				continue
			}
			ast.Inspect(fd.Body, func(m ast.Node) bool {
				call, ok := m.(*ast.CallExpr)
				if !ok {
					return true
				}
				switch nm := calleeName(info, call); nm {
				case "json.Marshal", "json.MarshalIndent", "json.NewEncoder", "json.Indent", "json.Compact", "json.HTMLEscape":
					r.Bad(p.Name+"."+declKey(fd)+":"+nm, call.Pos(), "%s used in %s.%s: JSON text must come from the package's own jq-flavoured encoder (NaN→null, \\b \\f, no HTML escaping, verbatim json.Number)", nm, p.Name, declKey(fd))
				case "strconv.FormatFloat", "strconv.AppendFloat", "strconv.FormatInt", "strconv.AppendInt", "strconv.Itoa":
					// number formatting is allowed in the encoders, and for non-JSON purposes (exit codes, names, line numbers)
					file := c.PhysFile(call.Pos())
					if (nm == "strconv.AppendFloat" || nm == "strconv.FormatFloat") && file != "encoder.go" {
						r.Bad(p.Name+"."+declKey(fd)+":"+nm, call.Pos(), "%s outside the encoder in %s.%s: a second float formatter (shortest round-trip form, e-09 clean-up and thresholds live in encodeFloat64)", nm, p.Name, declKey(fd))
					}
				}
				return true
			})
		}
	}
	// 2. the string conversions reach the encoder
	info := c.Gojq.TypesInfo
	reach := func(fn string, target ...string) bool {
		seen := map[string]bool{}
		var visit func(k string, d int) bool
		visit = func(k string, d int) bool {
			if seen[k] || d > 4 {
				return false
			}
			seen[k] = true
			fd := c.Decl(c.Gojq, k)
			if fd == nil {
				return false
			}
			found := false
			ast.Inspect(fd.Body, func(m ast.Node) bool {
				if call, ok := m.(*ast.CallExpr); ok {
					nm := calleeName(info, call)
					for _, t := range target {
						if nm == t {
							found = true
						}
					}
					if strings.HasPrefix(nm, "gojq.") && !found {
						if visit(strings.TrimPrefix(nm, "gojq."), d+1) {
							found = true
						}
					}
				}
				return !found
			})
			return found
		}
		return visit(fn, 0)
	}
	for _, fn := range []string{"funcToJSON", "funcToString", "jsonMarshal", "Marshal", "jsonEncodeString", "formatJoin", "funcJoin", "Preview"} {
		if c.Decl(c.Gojq, fn) == nil {
			r.Undecided("reach:"+fn, token.NoPos, "%s not found", fn)
			continue
		}
		ok := reach(fn, "gojq.encoder.encode", "gojq.encoder.encodeString")
		r.Check(ok, "reach:"+fn, c.Decl(c.Gojq, fn).Pos(), "%s produces its JSON text through (*encoder).encode/encodeString: %v", fn, ok)
	}
	// 3. encoder values are constructed only in the marshal helpers (no second configuration of the encoder)
	for _, fd := range c.Decls(c.Gojq) {
		ast.Inspect(fd.Body, func(m ast.Node) bool {
			if cl, ok := m.(*ast.CompositeLit); ok && isNamed(info.TypeOf(cl), pathGojq, "encoder") {
				switch declKey(fd) {
				case "Marshal", "jsonMarshal", "jsonEncodeString", "jsonLimitedMarshal":
				default:
					r.Bad("construct:"+declKey(fd), cl.Pos(), "library encoder constructed in %s", declKey(fd))
				}
			}
			return true
		})
	}
}

func ruleC12Enum(c *Ctx, r *Rep) {
	want := []string{"nil", "bool", "int", "float64", "*math/big.Int", "encoding/json.Number", "string", "[]any", "map[string]any"}
	for _, p := range []*packages.Package{c.Gojq, c.Cli} {
		info := p.TypesInfo
		fd := c.Decl(p, "encoder.encode")
		if fd == nil {
			r.Undecided(p.Name+".encoder.encode", token.NoPos, "not found")
			continue
		}
		have := map[string]bool{}
		def := ""
		ast.Inspect(fd.Body, func(m ast.Node) bool {
			ts, ok := m.(*ast.TypeSwitchStmt)
			if !ok {
				return true
			}
			for _, s := range ts.Body.List {
				cc := s.(*ast.CaseClause)
				if cc.List == nil {
					def = classifyDefault(info, cc)
				}
				for _, e := range cc.List {
					if isNilIdent(e) {
						have["nil"] = true
					} else {
						have[strings.ReplaceAll(info.TypeOf(e).String(), "interface {}", "any")] = true
					}
				}
			}
			return false
		})
		var miss []string
		for _, w := range want {
			if !have[w] {
				miss = append(miss, w)
			}
		}
		r.Check(len(miss) == 0 && def == "panics", p.Name+".encoder.encode", fd.Pos(), "%s encoder handles the nine supported dynamic types (missing %v; default %s)", p.Name, miss, def)
	}
}

func ruleC01StackSib(c *Ctx, r *Rep) {
	ren := map[string]string{"scopeStack": "stack", "scopeBlock": "block", "scope": "any"}
	for _, m := range []string{"push", "pop", "empty", "save", "restore"} {
		a, b := c.Decl(c.Gojq, "stack."+m), c.Decl(c.Gojq, "scopeStack."+m)
		if a == nil || b == nil {
			r.Undecided(m, token.NoPos, "stack.%s or scopeStack.%s not found", m, m)
			continue
		}
		na := sibNormalise(c, a, &sibOpts{pkg: c.Gojq})
		nb := sibNormalise(c, b, &sibOpts{pkg: c.Gojq, rename: ren})
		d := sibDiff(na, nb)
		sigA := c.Src(a.Type)
		sigB := c.Src(b.Type)
		for x, y := range ren {
			sigB = replaceIdent(sigB, x, y)
		}
		if d == "" && sigA != sigB {
			d = "signatures differ: " + sigA + " vs " + sigB
		}
		r.Check(d == "", m, b.Pos(), "stack.%s and scopeStack.%s %s%s", m, m, map[bool]string{true: "are identical modulo element type", false: "DIVERGE — "}[d == ""], d)
	}
	// newStack / newScopeStack
	a, b := c.Decl(c.Gojq, "newStack"), c.Decl(c.Gojq, "newScopeStack")
	if a != nil && b != nil {
		d := sibDiff(sibNormalise(c, a, &sibOpts{pkg: c.Gojq}), sibNormalise(c, b, &sibOpts{pkg: c.Gojq, rename: ren}))
		r.Check(d == "", "new", b.Pos(), "newStack and newScopeStack agree: %s", map[bool]string{true: "yes", false: d}[d == ""])
	}
}
