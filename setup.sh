#!/bin/bash
# Builds the checker and goyacc from files on disk only (offline).
set -eu
cd "$(dirname "$0")"
VERIF="$(pwd)"
. "$VERIF/env.sh"
mkdir -p "$VERIF/bin" "$VERIF/evidence"
(cd "$VERIF/checker" && go build -o "$VERIF/bin/checker" .)
(cd "$VERIF/checker" && go build -o "$VERIF/bin/goyacc" golang.org/x/tools/cmd/goyacc)
echo "setup ok: $("$VERIF/bin/checker" -list | grep -c 'R-') rules"
