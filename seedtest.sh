#!/bin/bash
# usage: seedtest.sh <patch.diff> <prop>...   — applies a seeded change to /repo (or, if it no longer applies to HEAD,
# to a scratch worktree of the pinned snapshot), runs the checks, and removes every trace.
patch="$1"; shift
SNAP=2b0dff6
cd /repo || exit 1
if [ -n "$(git status --porcelain)" ]; then echo "/repo not clean"; exit 1; fi
if git apply --check "$patch" 2>/dev/null; then
  git apply "$patch"
  for p in "$@"; do echo "== $p"; (cd /verif && ./check "$p" --no-evidence 2>&1 | grep -E "^(FINDING|UNDECIDED|SUMMARY)" | cut -c1-400); done
  git checkout -- . ; git clean -fdq
else
  wt=$(mktemp -d /tmp/seedwt.XXXX); rmdir "$wt"
  git worktree add -q --detach "$wt" $SNAP || exit 1
  if (cd "$wt" && git apply "$patch"); then
    echo "(applied to the pinned snapshot $SNAP in a scratch worktree; pre-fix findings of the snapshot are expected too)"
    for p in "$@"; do echo "== $p"; (cd /verif && VERIF_REPO="$wt" ./check "$p" --no-evidence 2>&1 | grep -E "^(FINDING|UNDECIDED|SUMMARY)" | cut -c1-400); done
  else
    echo "patch applies neither to HEAD nor to the snapshot"
  fi
  git worktree remove --force "$wt"
fi
