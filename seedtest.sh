#!/bin/bash
# usage: seedtest.sh <patch.diff> <prop>...   — applies a seeded change to /repo, runs the checks, reverts.
patch="$1"; shift
cd /repo || exit 1
if [ -n "$(git status --porcelain)" ]; then echo "/repo not clean"; exit 1; fi
git apply "$patch" || { echo "patch does not apply"; exit 1; }
for p in "$@"; do
  echo "== $p"
  (cd /verif && ./check "$p" --no-evidence 2>&1 | grep -E "^(FINDING|UNDECIDED|SUMMARY)" | cut -c1-400)
done
git checkout -- . ; git clean -fdq
